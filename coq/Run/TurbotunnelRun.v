(* TurbotunnelRun.v — line-protocol adapter for GoHeap / ClientMap / QueueConn / Redial
   (harness glue, executable).

   turbotunnel heap <ops>            container/heap on an int slice (Less = <)
        p<z> push | o pop | r<i> remove | f<i>:<z> h[i]=z;Fix(i) | a<z> raw append | n Init
   turbotunnel cm <timeout> <ops>    clientMapInner with explicit clock
        s<addr>@<now> SendQueue | e<now> removeExpired(now, timeout)
   turbotunnel qc <cap> <ops>        QueuePacketConn (no expiry: black-box clock)
        i<addr>:<payload> QueueIncoming | r<n> ReadFrom(buf[n]) | w<addr>:<payload> WriteTo
        o<addr> OutgoingQueue+recv | c Close
   turbotunnel qm <cap> <timeout> <ops>...  the same [qstep]/[qrun] with an explicit clock, EVERY operation of
        [qop], TIED to the Go code (in-package driver harness/overlay/common/turbotunnel/zz_verif_c17_test.go: a
        QueuePacketConn whose client map has no sweeper goroutine; the clock readings of the case are put
        into the records; cap must be queueSize):
        w<addr>:<payload>@<now> | o<addr>@<now> | h<k> held recv | e<now> sweep | i<addr>:<payload> | r<n> | c Close
        each answer = <result>/<live records addr.seen.qid=contents, by address>/<closed queues, by identity>;
        a receive on a closed queue answers D
   redial / redials / redialq: the whole answer is  !fuel  when a run to quiescence stopped because its fuel ran
        out and not because no internal step was enabled: a state that can still move is never taken for a settled one *)
From Coq Require Import List NArith ZArith Bool Arith String.
From Snow Require Import Model.RedialQueue.
From Snow Require Import Lib.Wire Model.GoHeap Model.ClientMap Model.QueueConn Model.Redial.
Import ListNotations.
Open Scope N_scope.

Definition AT : N := 64.
Definition EQ : N := 61.
Definition SLASH : N := 47.
Definition GT : N := 62.

Definition nat_print (n : nat) : bytes := dec_print (N.of_nat n).
Definition or_e (b : bytes) : bytes := match b with [] => bs "e" | _ => b end.

(* ---------------------------------------------------------------- heap *)
Inductive hop := HPush (z : Z) | HPop | HRemove (i : nat) | HFix (i : nat) (z : Z) | HAppend (z : Z) | HInit.

Definition hop_parse (t : bytes) : option hop :=
  match t with
  | 112 :: r => option_map HPush (zdec_parse r)                       (* p *)
  | [111] => Some HPop                                                 (* o *)
  | 114 :: r => option_map HRemove (dec_parse_nat r)                   (* r *)
  | 102 :: r => match split_on COLON r with                            (* f *)
                | [a; b] => match dec_parse_nat a, zdec_parse b with
                            | Some i, Some z => Some (HFix i z)
                            | _, _ => None
                            end
                | _ => None
                end
  | 97 :: r => option_map HAppend (zdec_parse r)                       (* a *)
  | [110] => Some HInit                                                (* n *)
  | _ => None
  end.

Definition zlist_print (l : list Z) : bytes := or_e (join [SEMI] (map zdec_print l)).

Definition hstep (l : list Z) (o : hop) : list Z * bytes :=
  match o with
  | HPush z => let l' := lpush Z.ltb z l in (l', zlist_print l')
  | HPop => match lpop Z.ltb l with
            | (l', Some v) => (l', zdec_print v ++ [GT] ++ zlist_print l')
            | (l', None) => (l', bs "!")
            end
  | HRemove i => match lremove Z.ltb l i with
                 | (l', Some v) => (l', zdec_print v ++ [GT] ++ zlist_print l')
                 | (l', None) => (l', bs "!")
                 end
  | HFix i z => let l' := lfix Z.ltb (set_nth i z l) i in (l', zlist_print l')
  | HAppend z => let l' := l ++ [z] in (l', zlist_print l')
  | HInit => let l' := linit Z.ltb l in (l', zlist_print l')
  end.

Fixpoint hrun (ops : list hop) (l : list Z) : list bytes :=
  match ops with
  | [] => []
  | o :: ops' => let '(l', r) := hstep l o in r :: hrun ops' l'
  end.

(* ---------------------------------------------------------------- client map *)
Definition addr_now_parse (r : bytes) : option (N * Z) :=
  match split_on AT r with
  | [a; b] => match dec_parse a, zdec_parse b with
              | Some a, Some z => Some (a, z)
              | _, _ => None
              end
  | _ => None
  end.

Inductive cmtok := TSend (a : N) (now : Z) | TExpire (now : Z).

Definition cmtok_parse (t : bytes) : option cmtok :=
  match t with
  | 115 :: r => option_map (fun p => TSend (fst p) (snd p)) (addr_now_parse r)   (* s *)
  | 101 :: r => option_map TExpire (zdec_parse r)                                (* e *)
  | _ => None
  end.

Definition rec_print (r : crec) : bytes :=
  dec_print (c_addr r) ++ [DOT] ++ zdec_print (c_seen r) ++ [DOT] ++ nat_print (c_qid r).

Fixpoint ins_nat (x : nat) (l : list nat) : list nat :=
  match l with
  | [] => [x]
  | y :: t => if Nat.leb x y then x :: l else y :: ins_nat x t
  end.
Definition sort_nat (l : list nat) : list nat := fold_right ins_nat [] l.

Definition cm_print (s : cmap) : bytes :=
  or_e (join [SEMI] (map rec_print (byAge s))) ++ [SLASH] ++
  or_e (join [SEMI] (map (fun e => dec_print (fst e) ++ [EQ] ++ nat_print (snd e)) (byAddr s))) ++ [SLASH] ++
  or_e (join [SEMI] (map nat_print (sort_nat (map fst (dead s))))).

Fixpoint cmrun (timeout : Z) (ops : list cmtok) (s : cmap) : list bytes :=
  match ops with
  | [] => []
  | TSend a now :: ops' =>
      let '(s', k) := send_queue a now s in
      (113 :: nat_print k ++ [SLASH] ++ cm_print s') :: cmrun timeout ops' s'
  | TExpire now :: ops' =>
      let s' := remove_expired now timeout s in
      cm_print s' :: cmrun timeout ops' s'
  end.

(* ---------------------------------------------------------------- queue conn *)
Definition addr_payload_parse (r : bytes) : option (N * payload) :=
  match split_on COLON r with
  | [a; p] => match dec_parse a, payload_parse p with
              | Some a, Some p => Some (a, p)
              | _, _ => None
              end
  | _ => None
  end.

(* <addr>:<payload>[@<now>] *)
Definition apn_parse (r : bytes) : option (N * payload * Z) :=
  match split_on AT r with
  | [ap] => option_map (fun x => (x, 0%Z)) (addr_payload_parse ap)
  | [ap; n] => match addr_payload_parse ap, zdec_parse n with
               | Some x, Some z => Some (x, z)
               | _, _ => None
               end
  | _ => None
  end.

Definition an_parse (r : bytes) : option (N * Z) :=
  match split_on AT r with
  | [a] => option_map (fun x => (x, 0%Z)) (dec_parse a)
  | [a; n] => match dec_parse a, zdec_parse n with
              | Some x, Some z => Some (x, z)
              | _, _ => None
              end
  | _ => None
  end.

Definition qop_parse (t : bytes) : option qop :=
  match t with
  | 105 :: r => option_map (fun x => QIncoming (snd x) (fst x)) (addr_payload_parse r)      (* i *)
  | 114 :: r => option_map QRead (dec_parse_nat r)                                           (* r *)
  | 119 :: r => option_map (fun x => QWrite (snd (fst x)) (fst (fst x)) (snd x)) (apn_parse r) (* w *)
  | 111 :: r => option_map (fun x => QOutRecv (fst x) (snd x)) (an_parse r)                  (* o *)
  | 104 :: r => option_map QHeldRecv (dec_parse_nat r)                                       (* h *)
  | 101 :: r => option_map QSweep (zdec_parse r)                                             (* e *)
  | [99] => Some QClose                                                                      (* c *)
  | _ => None
  end.

Definition hexp (p : payload) : bytes := 120 :: hex_encode p.

Definition qout_print (o : qout) : bytes :=
  match o with
  | ONone => bs "-"
  | OIncoming _ => bs "-"
  | ORead p a => hexp p ++ [AT] ++ dec_print a
  | OWouldBlock => bs "B"
  | OErrClosed => bs "E"
  | OWrote n _ _ => 110 :: nat_print n
  | ORecv _ (RcvPkt p) => hexp p
  | ORecv _ RcvEmpty => bs "B"
  | ORecv _ RcvClosed => bs "C"
  | OCloseOk => bs "ok"
  end.


(* ---- qm: answers and the whole client map after every operation *)
Definition PLUS : N := 43.
Definition HASH : N := 35.

(* a queue's contents: all of it when short, otherwise the first two packets, the length, the last *)
Definition q_print (q : list payload) : bytes :=
  if Nat.leb (List.length q) 6 then or_e (join [PLUS] (map hexp q))
  else match q with
       | p1 :: p2 :: _ => hexp p1 ++ [PLUS] ++ hexp p2 ++ [PLUS] ++ [HASH] ++ nat_print (List.length q) ++ [PLUS] ++ hexp (last q [])
       | _ => bs "?"
       end.

Definition live_print (c : cmap) : bytes :=
  or_e (join [SEMI] (map (fun e => match nth_error (byAge c) (snd e) with
                                   | Some r => rec_print r ++ [EQ] ++ q_print (c_q r)
                                   | None => bs "?"
                                   end) (byAddr c))).

(* closed queues: identities only.  What is left in a discarded queue, and what a receive on it
   yields (a left-over packet or "closed"), is not part of the property: both sides print D. *)
Definition dead_print (c : cmap) : bytes :=
  or_e (join [SEMI] (map nat_print (sort_nat (map fst (dead c))))).

Definition qm_res_print (s : qconn) (o : qop) (r : qout) : bytes :=
  match o with
  | QHeldRecv k =>
      match find_qid k (byAge (clients s)) with
      | Some _ => qout_print r
      | None => if Nat.ltb k (next_qid (clients s)) then bs "D" else qout_print r
      end
  | _ => qout_print r
  end.

Fixpoint qmrun (cap : nat) (timeout : Z) (ops : list qop) (s : qconn) : list bytes :=
  match ops with
  | [] => []
  | o :: ops' =>
      let '(s1, r) := qstep cap timeout s o in
      (qm_res_print s o r ++ [SLASH] ++ live_print (clients s1) ++ [SLASH] ++ dead_print (clients s1)) :: qmrun cap timeout ops' s1
  end.

(* ---------------------------------------------------------------- redial *)
(*  turbotunnel redial <ecap> <tokens>     (tokens: see harness/overlay/zz_verif/turbotunnel/redial.go)
    After every token all internal steps are run to quiescence under EVERY schedule; the
    result is the set of possible observation lines, separated by '|'.
    turbotunnel redials <ecap> <tokens>: the carriers' Close() takes time.  The model's step
    LDCloseCarrier (the only step that changes c_nclose, taken by the dial loop between exchange and
    the next dial) stands for the RETURN of conn.Close(): here it is not an internal step but
    happens when the script says so (token K<k>), exactly like the scripted carrier of the driver,
    whose Close() blocks until K<k> and which counts as closed only then.
    oad = per successful dial, the number of carriers that are open in the state in which
    dialContext returns (computed, not assumed; C17_no_open_carrier_at_dial proves it is 0). *)
Inductive rtok := KDial (ok : bool) | KRead (k : nat) (ok : bool) | KWrite (k : nat) (ok : bool) | KUW | KUR | KUC
                | KCloseRet (k : nat).

Definition kb_parse (r : bytes) : option (nat * bool) :=
  match split_on COLON r with
  | [a; b] => match dec_parse_nat a, bool_parse b with
              | Some k, Some ok => Some (k, ok)
              | _, _ => None
              end
  | _ => None
  end.

Definition rtok_parse (t : bytes) : option rtok :=
  match t with
  | [68; 49] => Some (KDial true)       (* D1 *)
  | [68; 48] => Some (KDial false)      (* D0 *)
  | [87] => Some KUW
  | [82] => Some KUR
  | [67] => Some KUC
  | 114 :: r => option_map (fun x => KRead (fst x) (snd x)) (kb_parse r)
  | 119 :: r => option_map (fun x => KWrite (fst x) (snd x)) (kb_parse r)
  | 75 :: r => option_map KCloseRet (dec_parse_nat r)     (* K<k> *)
  | _ => None
  end.

Open Scope nat_scope.
Definition QCAP : nat := 2048.

Definition enc_b (b : bool) : nat := if b then 1 else 0.
Definition enc_car (c : carrier) : list nat :=
  [match c_r c with RTop => 0 | RRead => 1 | RSend => 2 | RDone => 3 end;
   match c_w c with WSel => 0 | WWrite => 1 | WSend => 2 | WDone => 3 end;
   ch_buf (c_rerr c); enc_b (ch_closed (c_rerr c)); ch_buf (c_werr c); enc_b (ch_closed (c_werr c)); c_nclose c].
Definition enc_state (s : rstate) : list nat :=
  [enc_b (r_closed s); match r_err s with ENone => 0 | EClosedConn => 1 | EDialFailed => 2 end;
   match r_d s with DTop => 0 | DDial => 1 | DExch _ => 2 | DClose _ => 3 | DDone => 4 end;
   match r_d s with DExch k => k | DClose k => k | _ => 0 end;
   r_sendq s; r_recvq s; enc_b (g_close_called s); enc_b (g_dial_failed s)] ++ flat_map enc_car (r_cs s).

Fixpoint lnat_eqb (a b : list nat) : bool :=
  match a, b with
  | [], [] => true
  | x :: a', y :: b' => Nat.eqb x y && lnat_eqb a' b'
  | _, _ => false
  end.

(* state, (answer codes (reversed), open carriers at each successful dial (reversed)) *)
Definition config := (rstate * (list nat * list nat))%type.
Definition enc_config (c : config) : list nat :=
  fst (snd c) ++ [99] ++ snd (snd c) ++ [98] ++ enc_state (fst c).

Fixpoint open_idx (i : nat) (cs : list carrier) : list nat :=
  match cs with
  | [] => []
  | c :: t => if c_closed c then open_idx (S i) t else i :: open_idx (S i) t
  end.

Definition is_close_label (l : label) : bool := match l with LDCloseCarrier => true | _ => false end.

Fixpoint dedupe (seen : list (list nat)) (cs : list config) : list config :=
  match cs with
  | [] => []
  | c :: cs' =>
      let e := enc_config c in
      if existsb (lnat_eqb e) seen then dedupe seen cs' else c :: dedupe (e :: seen) cs'
  end.

Section RedialRun.
  Variable ecap : nat.
  Variable slow : bool.     (* conn.Close() returns only when the script says so *)

  (* the internal steps enabled in s *)
  Definition movable (s : rstate) : list label :=
    filter (fun l => enabled ecap QCAP s l && negb (slow && is_close_label l)) (internal_labels s).

  (* all quiescent states reachable by internal steps; the flag says that some branch was cut because the
     fuel ran out while a step was still enabled (the state returned for that branch is NOT quiescent) *)
  Fixpoint closure (fuel : nat) (s : rstate) : list rstate * bool :=
    match movable s with
    | [] => ([s], false)
    | en =>
        match fuel with
        | O => ([s], true)
        | S f =>
            fold_right (fun l acc =>
                          match step ecap QCAP s l with
                          | Some s' => let '(r, b) := closure f s' in (r ++ fst acc, b || snd acc)
                          | None => acc
                          end) ([], false) en
        end
    end.

  Definition CLOSURE_FUEL : nat := 64.

  (* configurations, and whether a closure ran out of fuel so far *)
  Definition settle (cf : list config * bool) : list config * bool :=
    let rs := map (fun c => let '(l, b) := closure CLOSURE_FUEL (fst c) in (map (fun s => (s, snd c)) l, b)) (fst cf) in
    (dedupe [] (flat_map fst rs), snd cf || existsb snd rs).

  (* answer codes: 0 "-", 1 "n", 2 "ok", 3 "E", 4 "p", 5 "B" *)
  Definition apply_tok (t : rtok) (c : config) : config :=
    let '(s, (ans, oad)) := c in
    let mk (s' : rstate) (ans' : list nat) : config := (s', (ans', oad)) in
    let try (l : label) (pre : bool) :=
      if pre then match step ecap QCAP s l with Some s' => mk s' (0 :: ans) | None => mk s (1 :: ans) end
      else mk s (1 :: ans) in
    match t with
    | KDial true =>
        match step ecap QCAP s LDialOk with
        | Some s' => (s', (0 :: ans, List.length (open_idx 0 (r_cs s)) :: oad))
        | None => mk s (1 :: ans)
        end
    | KDial false => try LDialFail true
    | KCloseRet k => try LDCloseCarrier (match r_d s with DClose k' => Nat.eqb k' k | _ => false end)
    | KRead k ok =>
        match nth_error (r_cs s) k with
        | Some car => try (if ok then LReadOk k else LReadFail k) (negb (c_closed car))
        | None => mk s (1 :: ans)
        end
    | KWrite k ok =>
        match nth_error (r_cs s) k with
        | Some car => try (if ok then LWriteOk k else LWriteFail k) (negb (c_closed car))
        | None => mk s (1 :: ans)
        end
    | KUW => let a := match user_result s LUWrite with UErr _ => 3 | _ => 2 end in
             match step ecap QCAP s LUWrite with Some s' => mk s' (a :: ans) | None => mk s (a :: ans) end
    | KUR => let a := match user_result s LURead with UErr _ => 3 | UPacket => 4 | _ => 5 end in
             match step ecap QCAP s LURead with Some s' => mk s' (a :: ans) | None => mk s (a :: ans) end
    | KUC => let a := match user_result s LUClose with UErr _ => 3 | _ => 2 end in
             match step ecap QCAP s LUClose with Some s' => mk s' (a :: ans) | None => mk s (a :: ans) end
    end.

  Fixpoint rrun (toks : list rtok) (cf : list config * bool) : list config * bool :=
    match toks with
    | [] => cf
    | t :: toks' => rrun toks' (settle (map (apply_tok t) (fst cf), snd cf))
    end.
End RedialRun.

Definition ans_print (a : nat) : bytes :=
  match a with 0 => bs "-" | 1 => bs "n" | 2 => bs "ok" | 3 => bs "E" | 4 => bs "p" | _ => bs "B" end.

Definition dotted (l : list bytes) : bytes := or_e (join [DOT] l).

Definition config_print (c : config) : bytes :=
  let s := fst c in
  list_print (map ans_print (List.rev (fst (snd c)))) ++ [SEMI] ++
  bs "dials=" ++ nat_print (List.length (r_cs s) + (match r_d s with DDial => 1 | _ => 0 end) + (if g_dial_failed s then 1 else 0)) ++
  bs " oad=" ++ dotted (map nat_print (List.rev (snd (snd c)))) ++
  bs " open=" ++ dotted (map nat_print (open_idx 0 (r_cs s))) ++
  bs " max=" ++ nat_print (Nat.min 1 (List.length (r_cs s))) ++
  bs " closes=" ++ dotted (map (fun c => nat_print (c_nclose c)) (r_cs s)) ++
  bs " dialing=" ++ nat_print (match r_d s with DDial => 1 | _ => 0 end) ++
  bs " left=" ++ nat_print (threads_left s) ++
  (* the carrier whose Close() the dial loop has called and which has not returned (slow carriers only: otherwise
     LDCloseCarrier is an internal step and no settled state is in DClose) *)
  bs " pend=" ++ dotted (match r_d s with DClose k => [nat_print k] | _ => [] end).

Open Scope N_scope.
Definition BAR : N := 124.

Definition MARK_FUEL : bytes := bs "!fuel".

Definition redial_run (ecap : nat) (slow : bool) (toks : list rtok) : bytes :=
  let '(cs, nofuel) := rrun ecap slow toks (settle ecap slow ([(rs_init, ([], []))], false)) in
  if nofuel then MARK_FUEL else join [BAR] (map config_print cs).

(* ---------------------------------------------------------------- redial at the capacity of its queues *)
(*  turbotunnel redialq <ecap> <qcap> <tokens>: the same scripts as `redial`, with repetition <tok>*<n>, run
    on the same machine (qcap must be QCAP; the driver needs the number for its own bookkeeping), and
    with the CONTENTS of the two queues carried along (Model/RedialQueue.v ghost_send / ghost_recv, whose
    lengths are the machine's counters: C17_redial_contents_refine_counters): the user's n-th WriteTo
    sends packet n-1, the carriers' n-th successful ReadFrom delivers packet n.
      off = the packets handed to a carrier's WriteTo, in order (as ranges a-b.c.d-e)
      got = the packets the user's ReadFrom returned, in order *)
Open Scope nat_scope.
Definition STAR : N := 42%N.

Definition rtoks_parse1 (t : bytes) : option (list rtok) :=
  match split_on STAR t with
  | [b] => option_map (fun x => [x]) (rtok_parse b)
  | [b; n] => match rtok_parse b, dec_parse_nat n with
              | Some x, Some k => Some (repeat x k)
              | _, _ => None
              end
  | _ => None
  end.

Record qghost := mkqg {
  g_next : nat;            (* number of user writes so far = id of the next packet written *)
  g_send : list nat;       (* contents of sendQueue *)
  g_off : list nat;        (* packets taken by a writer goroutine (handed to a carrier), latest first *)
  g_seq : nat;             (* packets delivered by carriers so far *)
  g_recv : list nat;       (* contents of recvQueue *)
  g_got : list nat         (* packets returned to the user, latest first *)
}.
Definition qconfig := (config * qghost)%type.

Definition hd_ans (c : config) : nat := match fst (snd c) with a :: _ => a | [] => 0 end.

Definition ghost_tok (t : rtok) (s : rstate) (c' : config) (g : qghost) : qghost :=
  match t with
  | KUW => mkqg (S (g_next g)) (ghost_send nat QCAP s LUWrite (g_send g) (g_next g)) (g_off g) (g_seq g) (g_recv g) (g_got g)
  | KRead k true =>
      if Nat.eqb (hd_ans c') 0       (* the carrier's pending ReadFrom did return a packet *)
      then mkqg (g_next g) (g_send g) (g_off g) (S (g_seq g))
                (ghost_recv nat QCAP s (LReadOk k) (g_recv g) (S (g_seq g))) (g_got g)
      else g
  | KUR => mkqg (g_next g) (g_send g) (g_off g) (g_seq g) (ghost_recv nat QCAP s LURead (g_recv g) 0)
                (match (if r_closed s then None else fst (bq_pop nat (g_recv g))) with
                 | Some x => x :: g_got g
                 | None => g_got g
                 end)
  | _ => g
  end.

(* the internal steps run by `closure` change sendQueue only by LWSelPkt (a writer takes the oldest packet
   and calls the carrier's WriteTo with it): as many packets left the queue as the counter went down *)
Definition ghost_sync (s : rstate) (g : qghost) : qghost :=
  let k := List.length (g_send g) - r_sendq s in
  mkqg (g_next g) (skipn k (g_send g)) (List.rev (firstn k (g_send g)) ++ g_off g) (g_seq g) (g_recv g) (g_got g).

Definition enc_qconfig (qc : qconfig) : list nat :=
  enc_config (fst qc) ++ [97; g_next (snd qc); g_seq (snd qc)] ++ g_send (snd qc) ++ [96] ++ g_off (snd qc) ++ [95]
  ++ g_recv (snd qc) ++ [94] ++ g_got (snd qc).

Fixpoint qdedupe (seen : list (list nat)) (cs : list qconfig) : list qconfig :=
  match cs with
  | [] => []
  | c :: cs' =>
      let e := enc_qconfig c in
      if existsb (lnat_eqb e) seen then qdedupe seen cs' else c :: qdedupe (e :: seen) cs'
  end.

Section RedialQRun.
  Variable ecap : nat.

  Definition qapply (t : rtok) (qc : qconfig) : qconfig :=
    let c' := apply_tok ecap t (fst qc) in (c', ghost_tok t (fst (fst qc)) c' (snd qc)).

  Definition qsettle (cf : list qconfig * bool) : list qconfig * bool :=
    let rs := map (fun qc => let '(l, b) := closure ecap false CLOSURE_FUEL (fst (fst qc)) in
                             (map (fun s => ((s, snd (fst qc)), ghost_sync s (snd qc))) l, b)) (fst cf) in
    let out := flat_map fst rs in
    (match out with
     | [_] => out
     | _ => qdedupe [] out
     end, snd cf || existsb snd rs).

  Fixpoint qrrun (toks : list rtok) (cf : list qconfig * bool) : list qconfig * bool :=
    match toks with
    | [] => cf
    | t :: toks' => qrrun toks' (qsettle (map (qapply t) (fst cf), snd cf))
    end.
End RedialQRun.

Fixpoint ranges_aux (lo hi : nat) (l : list nat) : list (nat * nat) :=
  match l with
  | [] => [(lo, hi)]
  | x :: t => if Nat.eqb x (S hi) then ranges_aux lo x t else (lo, hi) :: ranges_aux x x t
  end.
Definition ranges (l : list nat) : list (nat * nat) :=
  match l with [] => [] | x :: t => ranges_aux x x t end.
Definition range_print (r : nat * nat) : bytes :=
  if Nat.eqb (fst r) (snd r) then nat_print (fst r) else (nat_print (fst r) ++ [45%N] ++ nat_print (snd r))%list.

Definition qconfig_print (qc : qconfig) : bytes :=
  (config_print (fst qc) ++ bs " off=" ++ dotted (map range_print (ranges (List.rev (g_off (snd qc)))))
   ++ bs " got=" ++ dotted (map range_print (ranges (List.rev (g_got (snd qc))))))%list.

Definition redialq_run (ecap : nat) (toks : list rtok) : bytes :=
  let '(cs, nofuel) := qrrun ecap toks (qsettle ecap ([((rs_init, ([], [])), mkqg 0 [] [] 0 [] [])], false)) in
  if nofuel then MARK_FUEL else join [BAR] (map qconfig_print cs).
Open Scope N_scope.

(* ---------------------------------------------------------------- client map, MANY clients (count boundaries of a sweep)
    turbotunnel cmb <timeout> <ops>: the same [send_queue] / [remove_expired] as `cm`, with bulk operations and a
    SUMMARY of the map after every operation (printing the whole map after each of thousands of calls would be
    quadratic):
      S<lo>-<hi>@<now>:<m>   SendQueue(a, now + (a mod m)) for a = lo, lo+1, .., hi   (m >= 1: m = 1 gives one instant)
      s<addr>@<now> | e<now>  as for cm
    answer per operation:  n<records>/<addresses in the map, as ranges>/<identities of the closed queues, as ranges>
    (queue identity = order of first SendQueue; C17_removed_by_next_sweep / C17_queue_removed_by_next_sweep are
    universal in the number of records expired at one sweep: here 1025, 2048, ... of them) *)
Open Scope nat_scope.
Inductive cmbtok := BSend (lo : N) (n : nat) (now : Z) (m : Z) | BOne (a : N) (now : Z) | BExpire (now : Z).

Definition MINUS : N := 45%N.

Definition cmbtok_parse (t : bytes) : option cmbtok :=
  match t with
  | 83%N :: r =>                                                                  (* S *)
      match split_on AT r with
      | [rg; tm] =>
          match split_on MINUS rg, split_on COLON tm with
          | [lo; hi], [now; m] =>
              match dec_parse lo, dec_parse hi, zdec_parse now, zdec_parse m with
              | Some lo, Some hi, Some now, Some m =>
                  if (N.leb lo hi && Z.ltb 0%Z m)%bool then Some (BSend lo (S (N.to_nat (hi - lo))) now m) else None
              | _, _, _, _ => None
              end
          | _, _ => None
          end
      | _ => None
      end
  | 115%N :: r => option_map (fun p => BOne (fst p) (snd p)) (addr_now_parse r)   (* s *)
  | 101%N :: r => option_map BExpire (zdec_parse r)                               (* e *)
  | _ => None
  end.

Definition bsend_all (lo : N) (n : nat) (now m : Z) (s : cmap) : cmap :=
  fold_left (fun s k => let a := (lo + N.of_nat k)%N in fst (send_queue a (now + Z.modulo (Z.of_N a) m) s)) (seq 0 n) s.

Definition nranges_print (l : list nat) : bytes := dotted (map range_print (ranges l)).

Definition cmb_print (s : cmap) : bytes :=
  (110%N :: nat_print (List.length (byAge s))) ++ [SLASH] ++
  nranges_print (map (fun e => N.to_nat (fst e)) (byAddr s)) ++ [SLASH] ++
  nranges_print (sort_nat (map fst (dead s))).

Fixpoint cmbrun (timeout : Z) (ops : list cmbtok) (s : cmap) : list bytes :=
  match ops with
  | [] => []
  | o :: ops' =>
      let s' := match o with
                | BSend lo n now m => bsend_all lo n now m s
                | BOne a now => fst (send_queue a now s)
                | BExpire now => remove_expired now timeout s
                end in
      cmb_print s' :: cmbrun timeout ops' s'
  end.
Open Scope N_scope.

(* the op list of a qc case may be split over several space separated fields (Wire.split_on is
   quadratic in the length of one field) *)
Definition chunks_parse {A} (f : bytes -> option A) (fields : list bytes) : option (list A) :=
  option_map (@List.concat A) (map_opt (list_parse f) fields).

Definition run (args : list bytes) : bytes :=
  match args with
  | [op; a] =>
      if beq op (bs "heap") then
        match list_parse hop_parse a with
        | Some ops => list_print (hrun ops [])
        | None => ERR_BADCASE
        end
      else ERR_BADCASE
  | op :: a :: rest =>
      if beq op (bs "qc") then
        match dec_parse_nat a, chunks_parse qop_parse rest with
        | Some cap, Some ops => list_print (map qout_print (snd (qrun cap 1%Z ops qc_empty)))
        | _, _ => ERR_BADCASE
        end
      else if beq op (bs "qm") then
        match rest with
        | b :: rest' =>
            match dec_parse_nat a, zdec_parse b, chunks_parse qop_parse rest' with
            | Some cap, Some timeout, Some ops =>
                list_print (qmrun cap timeout ops qc_empty)
            | _, _, _ => ERR_BADCASE
            end
        | [] => ERR_BADCASE
        end
      else
      match rest with
      | [b] =>
          if beq op (bs "cm") then
            match zdec_parse a, list_parse cmtok_parse b with
            | Some timeout, Some ops => list_print (cmrun timeout ops cm_empty)
            | _, _ => ERR_BADCASE
            end
          else if beq op (bs "cmb") then
            match zdec_parse a, list_parse cmbtok_parse b with
            | Some timeout, Some ops => list_print (cmbrun timeout ops cm_empty)
            | _, _ => ERR_BADCASE
            end
          else if beq op (bs "redial") then
            match dec_parse_nat a, list_parse rtok_parse b with
            | Some ecap, Some toks => redial_run ecap false toks
            | _, _ => ERR_BADCASE
            end
          else if beq op (bs "redials") then
            match dec_parse_nat a, list_parse rtok_parse b with
            | Some ecap, Some toks => redial_run ecap true toks
            | _, _ => ERR_BADCASE
            end
          else ERR_BADCASE
      | [b; c] =>
          if beq op (bs "redialq") then
            match dec_parse_nat a, dec_parse_nat b, option_map (@List.concat rtok) (list_parse rtoks_parse1 c) with
            | Some ecap, Some qcap, Some toks => if Nat.eqb qcap QCAP then redialq_run ecap toks else ERR_BADCASE
            | _, _, _ => ERR_BADCASE
            end
          else ERR_BADCASE
      | _ => ERR_BADCASE
      end
  | _ => ERR_BADCASE
  end.
