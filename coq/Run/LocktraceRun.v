(* LocktraceRun.v — line-protocol adapter for the C20 trace checker (harness glue, executable).
   The extracted [check_trace] (proved sound: C20_trace_check_sound) is run on executions recorded
   from instrumented builds of the repo's packages, against the generated access table.

     locktrace check <fields> <locs> <events>
        fields  = name;name;...            tracked location classes, numbered from 0
        locs    = id:fieldidx:lk,...       lk = name=lockid/name=lockid/... | -      (the lock instance
                                            that static lock name `name` denotes for location id)
        events  = a<t>.<l> Acq | r<t>.<l> Rel | A<t>.<l> RAcq | R<t>.<l> RRel | d<t>.<x> Rd | w<t>.<x> Wr
                  | o<t>.<x> AtomicOp | f<t>.<t'> Fork            comma separated
        -> ok events=<n> accesses=<m> locks=<k>      the trace is well formed and respects access_table
           reject at=<i>                             first event that is not a step / has no row / unknown thread
     locktrace example                     the generated witness trace -> ok ... *)
From Coq Require Import List NArith Bool Arith String Ascii.
From Snow Require Import Lib.Wire Model.LockTrace Gen.AccessTable.
Import ListNotations.
Open Scope N_scope.
Open Scope list_scope.

Definition str_of_bytes (b : bytes) : string :=
  fold_right (fun c s => String (ascii_of_N c) s) EmptyString b.

Definition EQ : N := 61.
Definition SLASH : N := 47.

Definition nat_parse (b : bytes) : option nat := dec_parse_nat b.

Definition ev_parse (t : bytes) : option event :=
  match t with
  | c :: r =>
      match split_on DOT r with
      | [a; b] =>
          match nat_parse a, nat_parse b with
          | Some a, Some b =>
              if c =? 97 then Some (Acq a b) else if c =? 114 then Some (Rel a b)
              else if c =? 65 then Some (RAcq a b) else if c =? 82 then Some (RRel a b)
              else if c =? 100 then Some (Rd a b) else if c =? 119 then Some (Wr a b)
              else if c =? 111 then Some (AtomicOp a b) else if c =? 102 then Some (Fork a b)
              else None
          | _, _ => None
          end
      | _ => None
      end
  | [] => None
  end.

Definition lk_parse (t : bytes) : option (string * nat) :=
  match split_on EQ t with
  | [n; i] => option_map (fun i => (str_of_bytes n, i)) (nat_parse i)
  | _ => None
  end.

Definition loc_parse (t : bytes) : option (nat * (nat * list (string * nat))) :=
  match split_on COLON t with
  | [x; f; lks] =>
      match nat_parse x, nat_parse f, (if beq lks (bs "-") then Some [] else map_opt lk_parse (split_on SLASH lks)) with
      | Some x, Some f, Some l => Some (x, (f, l))
      | _, _, _ => None
      end
  | _ => None
  end.

Fixpoint alookup {V} (k : nat) (l : list (nat * V)) : option V :=
  match l with [] => None | (k', v) :: r => if Nat.eqb k k' then Some v else alookup k r end.
Fixpoint slookup (k : string) (l : list (string * nat)) : option nat :=
  match l with [] => None | (k', v) :: r => if String.eqb k k' then Some v else slookup k r end.

Definition mk_field_of (fields : list string) (locs : list (nat * (nat * list (string * nat)))) (x : loc) : string :=
  match alookup x locs with Some (f, _) => nth f fields EmptyString | None => EmptyString end.
(* lock 0 is never acquired by the recorder (its lock ids start at 1) *)
Definition mk_inst (locs : list (nat * (nat * list (string * nat)))) (x : loc) (g : string) : lock :=
  match alookup x locs with
  | Some (_, l) => match slookup g l with Some i => i | None => O end
  | None => O
  end.

(* reporting only: position of the first event the checker stops at *)
Fixpoint first_bad (field_of : loc -> string) (inst : loc -> string -> lock) (tr : trace) (s : lockst) (init : bool)
         (forked : list tid) (i : N) : option N :=
  match tr with
  | [] => None
  | e :: r =>
      let init' := init && negb (is_fork e) in
      if negb (Nat.eqb (thr e) main_thread || mem_tid (thr e) forked) then Some i
      else if negb (match acc_loc e with Some x => existsb (row_okb field_of inst s init' e x) access_table | None => true end) then Some i
      else match step s e with
           | Some s' => first_bad field_of inst r s' init' (match e with Fork _ t' => t' :: forked | _ => forked end) (i + 1)
           | None => Some i
           end
  end.

Fixpoint count_acc (tr : trace) : N :=
  match tr with [] => 0 | e :: r => (match acc_loc e with Some _ => 1 | None => 0 end) + count_acc r end.
Fixpoint lock_ids (tr : trace) (acc : list lock) : list lock :=
  match tr with
  | [] => acc
  | Acq _ l :: r | RAcq _ l :: r => lock_ids r (if mem_tid l acc then acc else l :: acc)
  | _ :: r => lock_ids r acc
  end.

Definition report (field_of : loc -> string) (inst : loc -> string -> lock) (tr : trace) : bytes :=
  if check_trace field_of inst access_table tr
  then bs "ok events=" ++ dec_print (N.of_nat (List.length tr)) ++ bs " accesses=" ++ dec_print (count_acc tr)
       ++ bs " locks=" ++ dec_print (N.of_nat (List.length (lock_ids tr [])))
  else bs "reject at=" ++ (match first_bad field_of inst tr st0 true [] 0 with Some i => dec_print i | None => bs "?" end).

Definition run (args : list bytes) : bytes :=
  match args with
  | [op] => if beq op (bs "example") then report gen_ex_field_of gen_ex_inst gen_ex_tr else ERR_BADCASE
  | [op; fs; ls; es] =>
      if beq op (bs "check") then
        match (if beq ls (bs "-") then Some [] else map_opt loc_parse (split_on COMMA ls)),
              (if beq es (bs "-") then Some [] else map_opt ev_parse (split_on COMMA es)) with
        | Some locs, Some tr =>
            let fields := map str_of_bytes (split_on SEMI fs) in
            report (mk_field_of fields locs) (mk_inst locs) tr
        | _, _ => ERR_BADCASE
        end
      else ERR_BADCASE
  | _ => ERR_BADCASE
  end.
