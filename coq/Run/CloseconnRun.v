(* CloseconnRun.v — line-protocol adapter for Model/CloseConn.v (harness glue, executable).
   Case line:  closeconn batch <scenario,scenario,...>
   scenario = <max>.<broker>.<pre>.<closes>           closing a connection
     broker: fail | good | hold | holdgood | silent  (what the first rendezvous attempt of the connect loop meets;
             silent = the broker reads the request and never answers: the attempt is in flight when Close is called and
             ends, failed, by the code's own step - the ResponseHeaderTimeout of the transport - like a held poll that fails)
     pre:    none | sess | pconn | stream    (what has happened to the connection before Close is called)
     closes: c | cc | c2                     (Close once, twice in a row, two overlapping calls)
     Result: ret=<returned>/<calls>;inflight=<a Close returned with the attempt in flight>;melt=;open=<live peers>;
       after=<rendezvous attempts begun after Close>;late=<same: the model has no clock, every further attempt of the loop is late>
   scenario = <max>.<failure>.<k>.retry               failed attempts are retried
     the first k rendezvous attempts of the connect loop fail in the given way, attempt k+1 meets a proxy:
     failure: ice      unusable ICE configuration (NewPeerConnection refuses it; permanent: attempt k+1 fails too)
              unreach  the broker cannot be talked to (no HTTP answer)
              refuse   the broker answers with an HTTP error
              badjson  the broker's answer is not a poll response
              badsdp   the answer is not a session description the peer connection accepts
              noopen   the proxy answers but its data channel never opens
              silent   the broker reads the request and never answers: Negotiate fails by the transport's own timer
     what each attempt does is Model/Connect.v's new_peer CV1 with the outcomes of the kind; the attempt is the
     collector of the Peers machine being at C_Catching; Conn_Ok = Catch_ok, anything else = Catch_err.
     Result: att=<attempts made>;ev=<events of all attempts, '+'-separated>;peer=<live peers held>;ret=;melt=;open=;fly=
   every scenario ends with  ;term=<a listener rendering the events as the client binary does panicked>;nilerr=<failure
   events without an error>
   The Go driver (harness/overlay/client/lib/zz_verif_c15_test.go, c15RunCloseScenario / c15RunRetryScenario) runs the
   scenario through NewSnowflakeClient / Transport.Dial / SnowflakeConn.Close against a scripted broker.
   !fuel = a run to quiescence ran out of fuel; !disabled = a step the adapter asked for was not enabled: neither is
   ever passed off as a result. *)
From Coq Require Import List NArith Bool Arith String.
From Snow Require Import Lib.Wire Model.Peers Model.Connect Model.CloseConn Model.BrokerExchange.
From Snow Require Run.ConnectRun.
Import ListNotations.
Open Scope N_scope.

Definition FUEL : nat := 200%nat.

(* the machine state plus what the adapter must not hide *)
Record kx := mkX { kc : kstate; xfuel : bool; xdis : bool }.

Definition csettled (kv : kversion) (c : kstate) : bool :=
  match csettle_once kv V1 c with None => true | Some _ => false end.

Definition x_step (kv : kversion) (x : kx) (l : clabel) : kx :=
  match cstep kv V1 (kc x) l with
  | Some c' => mkX c' (xfuel x) (xdis x)
  | None => mkX (kc x) (xfuel x) true
  end.

Definition x_settle (kv : kversion) (x : kx) : kx :=
  let c' := csettle kv V1 FUEL (kc x) in
  mkX c' (xfuel x || negb (csettled kv c')) (xdis x).

Definition catching (c : kstate) : bool := match col (ps c) with C_Catching => true | _ => false end.

Definition nat_print (n : nat) : bytes := dec_print (N.of_nat n).

(* one turn of connectLoop: Collect, the rendezvous (if it gets that far) answered ok / not; returns whether an
   attempt was made *)
Definition loop_turn (kv : kversion) (x : kx) (answer : option bool) : kx * bool :=
  let x1 := x_settle kv (x_step kv x (L_P Col_lock)) in
  if catching (kc x1) then
    match answer with
    | Some ok => (x_settle kv (x_step kv (x_settle kv (x_step kv x1 (L_P (if ok then Catch_ok else Catch_err)))) (L_P Col_return)), true)
    | None => (x1, true)
    end
  else (x_settle kv (x_step kv x1 (L_P Col_return)), false).

(* the loop goes round again only while Melted() is open *)
Fixpoint loop_more (kv : kversion) (n : nat) (x : kx) : kx * nat :=
  match n with
  | O => (x, O)
  | S n' =>
      if melted (ps (kc x)) then (x, O)
      else let '(x1, att) := loop_turn kv x (Some false) in
           let '(x2, k) := loop_more kv n' x1 in
           (x2, ((if att then 1 else 0) + k)%nat)
  end.

Definition early_return (c : kstate) : bool := existsb returned (closers c) && catching c.

Definition flags (x : kx) (r : bytes) : bytes :=
  if xfuel x then bs "!fuel" else if xdis x then bs "!disabled"
  else if negb (csettled K_pinned (kc x)) then bs "!fuel" else r.

Definition scenario (kv : kversion) (max : nat) (kind pre closes : bytes) : option bytes :=
  let x0 := mkX (kinit max) false false in
  let first :=
    if beq kind (bs "silent") then
      (* held until the code's own timer ends the exchange: legal only if Model/BrokerExchange.v says it does end, failed *)
      match negotiate_outcome code_transport B_Silent with Some false => Some None | _ => None end
    else if beq kind (bs "fail") then Some (Some false)
    else if beq kind (bs "good") then Some (Some true)
    else if beq kind (bs "hold") || beq kind (bs "holdgood") then Some None
    else None in
  let pre_l :=
    if beq pre (bs "none") then Some []
    else if beq pre (bs "sess") || beq pre (bs "pconn") then Some [L_SessDies]
    else if beq pre (bs "stream") then Some [L_StreamOnly]
    else None in
  let ncalls :=
    if beq closes (bs "c") then Some 1%nat
    else if beq closes (bs "cc") || beq closes (bs "c2") then Some 2%nat
    else None in
  match first, pre_l, ncalls with
  | Some answer, Some pl, Some n =>
      let '(x1, _) := loop_turn kv x0 answer in
      (* the data path takes the first snowflake *)
      let x2 := x_settle kv (x_step kv x1 (L_P Pop_call)) in
      let x3 := fold_left (x_step kv) pl x2 in
      (* the application closes the connection *)
      (* the broker lets the held poll go *)
      let release := fun x : kx =>
        if catching (kc x) then
          x_settle kv (x_step kv (x_settle kv (x_step kv x (L_P (if beq kind (bs "holdgood") then Catch_ok else Catch_err)))) (L_P Col_return))
        else x in
      let '(x5, e1) :=
        if beq closes (bs "c2") then
          let x := x_settle kv (x_step kv (x_step kv x3 L_Close) L_Close) in (release x, early_return (kc x))
        else if beq closes (bs "cc") then
          (* the second call begins when the first has returned *)
          let xa := x_settle kv (x_step kv x3 L_Close) in
          let xb := x_settle kv (x_step kv (release xa) L_Close) in (release xb, early_return (kc xa) || early_return (kc xb))
        else let x := x_settle kv (x_step kv x3 L_Close) in (release x, early_return (kc x)) in
      let c5 := kc x5 in
      let ret := List.length (filter returned (closers c5)) in
      let open := List.length (live_peers (ps c5)) in
      let m := melted (ps c5) in
      let '(x6, after) := loop_more kv 2 x5 in
      Some (flags x6
           (bs "ret=" ++ nat_print ret ++ bs "/" ++ nat_print n ++ bs ";inflight=" ++ bool_print e1
            ++ bs ";melt=" ++ bool_print m ++ bs ";open=" ++ nat_print open
            ++ bs ";after=" ++ nat_print after ++ bs ";late=" ++ nat_print after
            ++ bs ";term=0;nilerr=0"))
  | _, _, _ => None
  end.

(* ---- failed attempts are retried *)

Definition good_outcomes : outcomes := mkO true true true true true true true.

Definition fail_outcomes (kind : bytes) : option outcomes :=
  if beq kind (bs "ice") then Some (mkO false true true true true true true)
  else if beq kind (bs "silent") then
    (* Negotiate's outcome is what the exchange over the code's transport gives against a silent broker *)
    match negotiate_outcome code_transport B_Silent with
    | Some ok => Some (mkO true true true true ok true true)
    | None => None
    end
  else if beq kind (bs "unreach") || beq kind (bs "refuse") || beq kind (bs "badjson")
       then Some (mkO true true true true false true true)
  else if beq kind (bs "badsdp") then Some (mkO true true true true true false true)
  else if beq kind (bs "noopen") then Some (mkO true true true true true true false)
  else None.

(* one turn of connectLoop in which the rendezvous attempt, if Collect gets that far, is Connect.new_peer with the
   given outcomes *)
Definition attempt_turn (kv : kversion) (x : kx) (o : outcomes) : kx * list cevent * bool :=
  let x1 := x_settle kv (x_step kv x (L_P Col_lock)) in
  if catching (kc x1) then
    let '(r, cs) := new_peer CV1 o in
    let ok := match r with Conn_Ok => true | _ => false end in
    (x_settle kv (x_step kv (x_settle kv (x_step kv x1 (L_P (if ok then Catch_ok else Catch_err)))) (L_P Col_return)),
     events cs, true)
  else (x_settle kv (x_step kv x1 (L_P Col_return)), [], false).

Fixpoint attempts (kv : kversion) (x : kx) (os : list outcomes) : kx * list cevent * nat :=
  match os with
  | [] => (x, [], O)
  | o :: os' =>
      let '(x1, ev1, att) := attempt_turn kv x o in
      let '(x2, ev2, n) := attempts kv x1 os' in
      (x2, ev1 ++ ev2, ((if att then 1 else 0) + n)%nat)
  end.

Definition retry_scenario (kv : kversion) (max : nat) (kind : bytes) (k : nat) : option bytes :=
  match fail_outcomes kind with
  | None => None
  | Some fo =>
      let last := if beq kind (bs "ice") then fo else good_outcomes in
      let x0 := mkX (kinit max) false false in
      (* the data path waits for a snowflake from the start *)
      let x1 := x_settle kv (x_step kv x0 (L_P Pop_call)) in
      let '(x2, evs, att) := attempts kv x1 (repeat fo k ++ [last]) in
      let peer := List.length (live_peers (ps (kc x2))) in
      let x3 := x_settle kv (x_step kv x2 L_Close) in
      let c3 := kc x3 in
      Some (flags x3
           (bs "att=" ++ nat_print att
            ++ bs ";ev=" ++ (match evs with [] => bs "-" | _ => join [43] (map ConnectRun.event_print evs) end)
            ++ bs ";peer=" ++ nat_print peer
            ++ bs ";ret=" ++ nat_print (List.length (filter returned (closers c3))) ++ bs "/1"
            ++ bs ";melt=" ++ bool_print (melted (ps c3))
            ++ bs ";open=" ++ nat_print (List.length (live_peers (ps c3)))
            (* every attempt of the model is over when the collector returns: none is left with the broker *)
            ++ bs ";fly=0"
            ++ bs ";term=" ++ bool_print (negb (forallb render_ok evs))
            ++ bs ";nilerr=" ++ nat_print (List.length (filter (fun e => negb (render_ok e)) evs))))
  end.

Definition scenario_line (kv : kversion) (t : bytes) : option bytes :=
  match split_on DOT t with
  | [m; kind; pre; closes] =>
      match dec_parse_nat m with
      | Some max =>
          if (max <? 1)%nat || (64 <? max)%nat then None
          else if beq closes (bs "retry") then
            match dec_parse_nat pre with
            | Some k => if (8 <? k)%nat then None else retry_scenario kv max kind k
            | None => None
            end
          else scenario kv max kind pre closes
      | None => None
      end
  | _ => None
  end.

Definition run (args : list bytes) : bytes :=
  match args with
  | [op; l] =>
      let kv := if beq op (bs "batch") then Some K_pinned
                else if beq op (bs "batchearly") then Some K_early else None in
      match kv with
      | Some kv =>
          match map_opt (scenario_line kv) (split_on COMMA l) with
          | Some rs => list_print rs
          | None => ERR_BADCASE
          end
      | None => ERR_BADCASE
      end
  | _ => ERR_BADCASE
  end.
