(* CloseconnRun.v — line-protocol adapter for Model/CloseConn.v (harness glue, executable).
   Case line:  closeconn batch <scenario,scenario,...>      scenario = <max>.<broker>.<pre>.<closes>
     broker: fail | good | hold | holdgood   (what the first rendezvous attempt of the connect loop meets)
     pre:    none | sess | pconn | stream    (what has happened to the connection before Close is called)
     closes: c | cc | c2                     (Close once, twice in a row, two overlapping calls)
   The Go driver (harness/overlay/client/lib/zz_verif_c15_test.go, c15RunCloseScenario) runs the scenario through
   NewSnowflakeClient / Transport.Dial / SnowflakeConn.Close against a scripted broker.
   Result per scenario: ret=<returned>/<calls>;inflight=<a Close returned with the attempt in flight>;melt=;open=<live peers>;
   after=<rendezvous attempts begun after Close>;late=<same: the model has no clock, every further attempt of the loop is late> *)
From Coq Require Import List NArith Bool Arith String.
From Snow Require Import Lib.Wire Model.Peers Model.CloseConn.
Import ListNotations.
Open Scope N_scope.

Definition FUEL : nat := 200%nat.

Definition cstep' (kv : kversion) (c : kstate) (l : clabel) : kstate :=
  match cstep kv V1 c l with Some c' => c' | None => c end.

Definition settle_c (kv : kversion) (c : kstate) : kstate := csettle kv V1 FUEL c.

Definition catching (c : kstate) : bool := match col (ps c) with C_Catching => true | _ => false end.

Definition nat_print (n : nat) : bytes := dec_print (N.of_nat n).

(* one turn of connectLoop: Collect, the rendezvous (if it gets that far) answered ok / not; returns whether an
   attempt was made *)
Definition loop_turn (kv : kversion) (c : kstate) (answer : option bool) : kstate * bool :=
  let c1 := settle_c kv (cstep' kv c (L_P Col_lock)) in
  if catching c1 then
    match answer with
    | Some ok => (settle_c kv (cstep' kv (settle_c kv (cstep' kv c1 (L_P (if ok then Catch_ok else Catch_err)))) (L_P Col_return)), true)
    | None => (c1, true)
    end
  else (settle_c kv (cstep' kv c1 (L_P Col_return)), false).

(* the loop goes round again only while Melted() is open *)
Fixpoint loop_more (kv : kversion) (n : nat) (c : kstate) : kstate * nat :=
  match n with
  | O => (c, O)
  | S n' =>
      if melted (ps c) then (c, O)
      else let '(c1, att) := loop_turn kv c (Some false) in
           let '(c2, k) := loop_more kv n' c1 in
           (c2, ((if att then 1 else 0) + k)%nat)
  end.

Definition early_return (c : kstate) : bool := existsb returned (closers c) && catching c.

Definition scenario (kv : kversion) (max : nat) (kind pre closes : bytes) : option bytes :=
  let c0 := kinit max in
  let first :=
    if beq kind (bs "fail") then Some (Some false)
    else if beq kind (bs "good") then Some (Some true)
    else if beq kind (bs "hold") || beq kind (bs "holdgood") then Some None
    else None in
  let pre_l :=
    if beq pre (bs "none") then Some []
    else if beq pre (bs "sess") || beq pre (bs "pconn") then Some [L_SessDies]
    else if beq pre (bs "stream") then Some [L_StreamOnly]
    else None in
  let ncalls :=
    if beq closes (bs "c") then Some 1%nat
    else if beq closes (bs "cc") || beq closes (bs "c2") then Some 2%nat
    else None in
  match first, pre_l, ncalls with
  | Some answer, Some pl, Some n =>
      let '(c1, _) := loop_turn kv c0 answer in
      (* the data path takes the first snowflake *)
      let c2 := settle_c kv (cstep' kv c1 (L_P Pop_call)) in
      let c3 := fold_left (cstep' kv) pl c2 in
      (* the application closes the connection *)
      (* the broker lets the held poll go *)
      let release := fun c : kstate =>
        if catching c then
          settle_c kv (cstep' kv (settle_c kv (cstep' kv c (L_P (if beq kind (bs "holdgood") then Catch_ok else Catch_err)))) (L_P Col_return))
        else c in
      let '(c5, e1) :=
        if beq closes (bs "c2") then
          let c := settle_c kv (cstep' kv (cstep' kv c3 L_Close) L_Close) in (release c, early_return c)
        else if beq closes (bs "cc") then
          (* the second call begins when the first has returned *)
          let ca := settle_c kv (cstep' kv c3 L_Close) in
          let cb := settle_c kv (cstep' kv (release ca) L_Close) in (release cb, early_return ca || early_return cb)
        else let c := settle_c kv (cstep' kv c3 L_Close) in (release c, early_return c) in
      let ret := List.length (filter returned (closers c5)) in
      let open := List.length (live_peers (ps c5)) in
      let m := melted (ps c5) in
      let '(_, after) := loop_more kv 2 c5 in
      Some (bs "ret=" ++ nat_print ret ++ bs "/" ++ nat_print n ++ bs ";inflight=" ++ bool_print e1
            ++ bs ";melt=" ++ bool_print m ++ bs ";open=" ++ nat_print open
            ++ bs ";after=" ++ nat_print after ++ bs ";late=" ++ nat_print after)
  | _, _, _ => None
  end.

Definition scenario_line (kv : kversion) (t : bytes) : option bytes :=
  match split_on DOT t with
  | [m; kind; pre; closes] =>
      match dec_parse_nat m with
      | Some max => if (max <? 1)%nat || (64 <? max)%nat then None else scenario kv max kind pre closes
      | None => None
      end
  | _ => None
  end.

Definition run (args : list bytes) : bytes :=
  match args with
  | [op; l] =>
      let kv := if beq op (bs "batch") then Some K_pinned
                else if beq op (bs "batchearly") then Some K_early else None in
      match kv with
      | Some kv =>
          match map_opt (scenario_line kv) (split_on COMMA l) with
          | Some rs => list_print rs
          | None => ERR_BADCASE
          end
      | None => ERR_BADCASE
      end
  | _ => ERR_BADCASE
  end.
