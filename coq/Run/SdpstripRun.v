(* SdpstripRun.v — line-protocol adapter for Model/IpClass.v and Model/SdpStrip.v (harness glue).

   structure token (what pion/sdp + pion/ice + net.ParseIP make of an SDP text):
     U                      desc.Unmarshal failed
     none                   no media section
     <media>;<media>;…      media = "-" (no attribute) or comma list of attribute tokens
        o<id>               other attribute          (id = index of its (key,value) text)
        b<id>               a=candidate that ice.UnmarshalCandidate rejects
        c<id>.<t>.<addr>    parsed candidate, t in h|s|p|r, addr = hex of net.ParseIP(c.Address()) or n

   ops:  ipclass x<hex>                         -> l=<b> u=<b> b=<b> t=<hex|n>   (IsLocal, IsUnspecified, IsLoopback, To4)
         strip <structure> <ignored>            -> unchanged | keep=<ids per media> rest=1
         stripmf <structure> <ignored>          the same when desc.Marshal() of the stripped description failed
         peer  <structure> <caps> <ignored>     -> nil | x<hex>                    (caps: comma list of n | x<hex>)

   whole description at line level (Model/SdpStripLines.v); ids stand for exact line texts of pion's
   re-marshalling of the input:
     lstruct = U | <e>;<session>;<media>;<media>…
        e        1 when Marshal(Unmarshal(text)) is byte-identical to text, else 0; followed by F when
                 desc.Marshal() of the STRIPPED description returned an error (the driver re-runs the library
                 calls of util.StripLocalAddresses; marshal_ok = false in Model/SdpStripLines.v)
        session  "-" or comma list of line ids
        media    comma list: h<id> for the m=/i=/c=/b=/k= lines, then attribute tokens as above
         lines <lstruct> <ignored>                                  -> unchanged | lines=<ids>
         psend <keep> <lstruct> <ignored>                           -> same | lines=<ids>     (proxy sendAnswer)
         csend <keep> x<broker> x<cache> x<front> <lstruct> <ign.>  -> same | lines=<ids>     (client Negotiate)
         csendc: as csend, the channel taken from NewSnowflakeClient(config)
      "same" = the text that went out is byte-identical to the text that came in

   remoteIPFromSDP with its partial operations (Model/SessDescPeer.v):
     pstruct = U | none | <media>;…   media = N (nil pointer) | "-" | comma list of
        o              not a candidate attribute
        k<e>.nil       ice.UnmarshalCandidate returned c == nil; e = 1 when err != nil
        k<e>.<t>.<a>   c != nil, type t, a = hex of net.ParseIP(c.Address()) or n
     pcaps   = comma list, one per pattern: n (nil submatch) | m<len>.<a> (len(m), a as above for m[1])
         peerg <pstruct> <pcaps> <ignored>      -> nil | x<hex> | !panic <why> *)
From Coq Require Import List NArith Bool Arith String.
From Snow Require Import Lib.Wire Model.IpClass Model.SdpStrip Model.SdpStripLines Model.SessDescPeer.
Import ListNotations.
Open Scope N_scope.

Definition ctype_parse (t : bytes) : option ctype :=
  match t with
  | [104] => Some Host | [115] => Some Srflx | [112] => Some Prflx | [114] => Some Relay
  | _ => None
  end.

Definition addr_parse (t : bytes) : option (option bytes) :=
  match t with
  | [110] => Some None
  | _ => option_map Some (hex_decode t)
  end.

Definition attr_parse (t : bytes) : option attr :=
  match t with
  | 111 :: i => option_map (fun n => mkAttr n Other) (dec_parse i)
  | 98 :: i => option_map (fun n => mkAttr n BadCand) (dec_parse i)
  | 99 :: r =>
      match split_on DOT r with
      | [i; ty; ad] =>
          match dec_parse i, ctype_parse ty, addr_parse ad with
          | Some n, Some ct, Some a => Some (mkAttr n (Cand ct a))
          | _, _, _ => None
          end
      | _ => None
      end
  | _ => None
  end.

(* Some None = U *)
Definition structure_parse (t : bytes) : option (option description) :=
  if beq t (bs "U") then Some None
  else if beq t (bs "none") then Some (Some [])
  else option_map Some (map_opt (list_parse attr_parse) (split_on SEMI t)).

Definition ids_print (m : media) : bytes := list_print (map (fun a => dec_print (a_id a)) m).

Definition result_print (r : strip_result) : bytes :=
  match r with
  | Unchanged => bs "unchanged"
  | Stripped [] => bs "keep=none rest=1"
  | Stripped d => bs "keep=" ++ join [SEMI] (map ids_print d) ++ bs " rest=1"
  end.

Definition caps_parse (t : bytes) : option (list (option bytes)) :=
  list_parse (fun c => match c with
                       | [110] => Some None
                       | 120 :: h => option_map Some (hex_decode h)
                       | _ => None
                       end) t.

(* ---------------------------------------------------------------- line level *)

Definition msec_parse (t : bytes) : option msec :=
  let toks := if beq t (bs "-") then [] else split_on COMMA t in
  let fix go (toks : list bytes) (heads : list N) : option msec :=
    match toks with
    | [] => Some (mkMsec (rev heads) [])
    | (104 :: i) :: r => match dec_parse i with Some n => go r (n :: heads) | None => None end
    | _ => option_map (mkMsec (rev heads)) (map_opt attr_parse toks)
    end in
  go toks [].

(* e field: (exact, marshal_ok) *)
Definition eflag_parse (e : bytes) : option (bool * bool) :=
  match e with
  | [c] => option_map (fun b => (b, true)) (bool_parse [c])
  | [c; 70] => option_map (fun b => (b, false)) (bool_parse [c])
  | _ => None
  end.

(* Some None = U; the flags = pion's re-marshalling of the input is the input; Marshal of the stripped
   description succeeded *)
Definition lstruct_parse (t : bytes) : option (option (bool * bool * sdesc)) :=
  if beq t (bs "U") then Some None
  else
    match split_on SEMI t with
    | e :: sess :: ms =>
        match eflag_parse e, list_parse dec_parse sess, map_opt msec_parse ms with
        | Some (ex, mok), Some sl, Some media => Some (Some (ex, mok, mkSdesc sl media))
        | _, _, _ => None
        end
    | _ => None
    end.

Definition ls_mok (p : option (bool * bool * sdesc)) : bool :=
  match p with Some (_, mok, _) => mok | None => true end.
Definition ls_desc (p : option (bool * bool * sdesc)) : option sdesc := option_map snd p.

Definition line_ids_print (l : list line) : bytes := list_print (map (fun x => dec_print (l_id x)) l).

Definition lines_print (s : sent) : bytes :=
  match s with
  | Original => bs "unchanged"
  | Lines l => bs "lines=" ++ line_ids_print l
  end.

(* what the broker sees: "same" when the bytes are those of the input *)
Definition sent_print (p : option (bool * bool * sdesc)) (s : sent) : bytes :=
  match s with
  | Original => bs "same"
  | Lines l =>
      match p with
      | Some (true, _, d) => if Nat.eqb (List.length l) (List.length (marshal d)) then bs "same" else bs "lines=" ++ line_ids_print l
      | _ => bs "lines=" ++ line_ids_print l
      end
  end.

Definition osent_print (p : option (bool * bool * sdesc)) (s : option sent) : bytes :=
  match s with Some s => sent_print p s | None => bs "nochannel" end.

(* ---------------------------------------------------------------- remoteIPFromSDP, fine grain *)

Definition pattr_parse (t : bytes) : option pattr :=
  match t with
  | [111] => Some POther
  | 107 :: r =>
      match split_on DOT r with
      | [e; n] => if beq n (bs "nil") then option_map (fun b => PCand (mkUcand None b)) (bool_parse e) else None
      | [e; ty; ad] =>
          match bool_parse e, ctype_parse ty, addr_parse ad with
          | Some b, Some ct, Some a => Some (PCand (mkUcand (Some (ct, a)) b))
          | _, _, _ => None
          end
      | _ => None
      end
  | _ => None
  end.

Definition pmedia_parse (t : bytes) : option pmedia :=
  if beq t (bs "N") then Some None else option_map Some (list_parse pattr_parse t).

Definition pstruct_parse (t : bytes) : option (option (list pmedia)) :=
  if beq t (bs "U") then Some None
  else if beq t (bs "none") then Some (Some [])
  else option_map Some (map_opt pmedia_parse (split_on SEMI t)).

Definition slice_of (len : nat) (g1 : option bytes) : list (option bytes) :=
  match len with
  | O => []
  | S O => [None]
  | S (S n) => None :: g1 :: repeat None n
  end.

Definition submatch_parse (t : bytes) : option submatch :=
  match t with
  | [110] => Some SNil
  | 109 :: r =>
      match split_on DOT r with
      | [len; ad] =>
          match dec_parse_nat len, addr_parse ad with
          | Some n, Some a => if Nat.leb n 64 then Some (SSlice (slice_of n a)) else None
          | _, _ => None
          end
      | _ => None
      end
  | _ => None
  end.

Definition pres_print (r : pres) : bytes :=
  match r with
  | PVal None => bs "nil"
  | PVal (Some ip) => 120 :: hex_encode ip
  | PPanic WNilMedia => bs "!panic nil-media"
  | PPanic WNilCandidate => bs "!panic nil-candidate"
  | PPanic WIndex => bs "!panic index"
  end.

Definition run (args : list bytes) : bytes :=
  match args with
  | [op; a] =>
      if beq op (bs "ipclass") then
        match payload_parse a with
        | Some ip => bs "l=" ++ bool_print (is_local ip) ++ bs " u=" ++ bool_print (is_unspecified ip)
                     ++ bs " b=" ++ bool_print (is_loopback ip)
                     ++ bs " t=" ++ match to4 ip with Some q => hex_encode q | None => bs "n" end
        | None => ERR_BADCASE
        end
      else ERR_BADCASE
  | [op; a; _] =>
      if beq op (bs "strip") then
        match structure_parse a with
        | Some p => result_print (strip_text true p)
        | None => ERR_BADCASE
        end
      else if beq op (bs "stripmf") then
        match structure_parse a with
        | Some p => result_print (strip_text false p)
        | None => ERR_BADCASE
        end
      else if beq op (bs "lines") then
        match lstruct_parse a with
        | Some p => lines_print (strip_lines (ls_mok p) (ls_desc p))
        | None => ERR_BADCASE
        end
      else ERR_BADCASE
  | [op; a; c; _] =>
      if beq op (bs "peer") then
        match structure_parse a, caps_parse c with
        | Some p, Some caps => match remote_ip p caps with
                               | Some ip => 120 :: hex_encode ip
                               | None => bs "nil"
                               end
        | _, _ => ERR_BADCASE
        end
      else if beq op (bs "peerg") then
        match pstruct_parse a, list_parse submatch_parse c with
        | Some p, Some caps => pres_print (remote_ip_code p caps)
        | _, _ => ERR_BADCASE
        end
      else if beq op (bs "psend") then
        match bool_parse a, lstruct_parse c with
        | Some keep, Some p => osent_print p (proxy_answer_sent [] true keep (ls_mok p) (ls_desc p))
        | _, _ => ERR_BADCASE
        end
      else ERR_BADCASE
  | [op; k; b; c; f; st; _] =>
      if beq op (bs "csend") || beq op (bs "csendc") then
        match bool_parse k, payload_parse b, payload_parse c, payload_parse f, lstruct_parse st with
        | Some keep, Some bu, Some cu, Some fd, Some p =>
            osent_print p (client_offer_sent (mkCC bu cu fd keep) true (ls_mok p) (ls_desc p))
        | _, _, _, _, _ => ERR_BADCASE
        end
      else ERR_BADCASE
  | _ => ERR_BADCASE
  end.
