(* SdpstripRun.v — line-protocol adapter for Model/IpClass.v and Model/SdpStrip.v (harness glue).

   structure token (what pion/sdp + pion/ice + net.ParseIP make of an SDP text):
     U                      desc.Unmarshal failed
     none                   no media section
     <media>;<media>;…      media = "-" (no attribute) or comma list of attribute tokens
        o<id>               other attribute          (id = index of its (key,value) text)
        b<id>               a=candidate that ice.UnmarshalCandidate rejects
        c<id>.<t>.<addr>    parsed candidate, t in h|s|p|r, addr = hex of net.ParseIP(c.Address()) or n

   ops:  ipclass x<hex>                         -> l=<b> u=<b> b=<b> t=<hex|n>   (IsLocal, IsUnspecified, IsLoopback, To4)
         strip <structure> <ignored>            -> unchanged | keep=<ids per media> rest=1
         peer  <structure> <caps> <ignored>     -> nil | x<hex>                    (caps: comma list of n | x<hex>) *)
From Coq Require Import List NArith Bool Arith String.
From Snow Require Import Lib.Wire Model.IpClass Model.SdpStrip.
Import ListNotations.
Open Scope N_scope.

Definition ctype_parse (t : bytes) : option ctype :=
  match t with
  | [104] => Some Host | [115] => Some Srflx | [112] => Some Prflx | [114] => Some Relay
  | _ => None
  end.

Definition addr_parse (t : bytes) : option (option bytes) :=
  match t with
  | [110] => Some None
  | _ => option_map Some (hex_decode t)
  end.

Definition attr_parse (t : bytes) : option attr :=
  match t with
  | 111 :: i => option_map (fun n => mkAttr n Other) (dec_parse i)
  | 98 :: i => option_map (fun n => mkAttr n BadCand) (dec_parse i)
  | 99 :: r =>
      match split_on DOT r with
      | [i; ty; ad] =>
          match dec_parse i, ctype_parse ty, addr_parse ad with
          | Some n, Some ct, Some a => Some (mkAttr n (Cand ct a))
          | _, _, _ => None
          end
      | _ => None
      end
  | _ => None
  end.

(* Some None = U *)
Definition structure_parse (t : bytes) : option (option description) :=
  if beq t (bs "U") then Some None
  else if beq t (bs "none") then Some (Some [])
  else option_map Some (map_opt (list_parse attr_parse) (split_on SEMI t)).

Definition ids_print (m : media) : bytes := list_print (map (fun a => dec_print (a_id a)) m).

Definition result_print (r : strip_result) : bytes :=
  match r with
  | Unchanged => bs "unchanged"
  | Stripped [] => bs "keep=none rest=1"
  | Stripped d => bs "keep=" ++ join [SEMI] (map ids_print d) ++ bs " rest=1"
  end.

Definition caps_parse (t : bytes) : option (list (option bytes)) :=
  list_parse (fun c => match c with
                       | [110] => Some None
                       | 120 :: h => option_map Some (hex_decode h)
                       | _ => None
                       end) t.

Definition run (args : list bytes) : bytes :=
  match args with
  | [op; a] =>
      if beq op (bs "ipclass") then
        match payload_parse a with
        | Some ip => bs "l=" ++ bool_print (is_local ip) ++ bs " u=" ++ bool_print (is_unspecified ip)
                     ++ bs " b=" ++ bool_print (is_loopback ip)
                     ++ bs " t=" ++ match to4 ip with Some q => hex_encode q | None => bs "n" end
        | None => ERR_BADCASE
        end
      else ERR_BADCASE
  | [op; a; _] =>
      if beq op (bs "strip") then
        match structure_parse a with
        | Some p => result_print (strip_text p)
        | None => ERR_BADCASE
        end
      else ERR_BADCASE
  | [op; a; c; _] =>
      if beq op (bs "peer") then
        match structure_parse a, caps_parse c with
        | Some p, Some caps => match remote_ip p caps with
                               | Some ip => 120 :: hex_encode ip
                               | None => bs "nil"
                               end
        | _, _ => ERR_BADCASE
        end
      else ERR_BADCASE
  | _ => ERR_BADCASE
  end.
