(* SafelogRun.v — line-protocol adapter for the safelog model (harness glue, executable).
     scrub x<hex>            -> hex of (scrub full_patterns b), "-" when empty         (repaired algorithm, generated patterns)
     scrub0 x<hex>           -> the pinned algorithm on the frozen pinned patterns
     write <x..,x..>         -> o=<hex of all blocks> nl=<every block ends with NL>   (repaired writer; executed as
                                run_scratch of Model/SafelogOwn.v: the chunks go through one scratch array that is overwritten
                                after every call, as in the Go driver; = run_writes by C07_write_scratch_delivery)
     write0 <x..,x..>        -> same for the pinned writer
     conc <x..,x..;x..;...>  -> writers one after the other; the lines of the output sorted
     spec x<hex>             -> 1 iff the word is in the language of addr_spec (executable matcher)
     evstr <offer|broker|failed> x<hex> -> hex of event_string: the String() of the event carrying an error with this text
     inclcex -               -> "included" or cex=<hex>: addr_spec ⊆ group 1 of the generated full pattern *)
From Coq Require Import List NArith Bool Arith String.
From Snow Require Import Lib.Wire Model.Regex Model.RegexIncl Model.Scrub Model.SafelogPinned Model.SafelogOwn Gen.SafelogPatterns.
Import ListNotations.
Open Scope N_scope.

Definition hex_or_dash (b : bytes) : bytes := match b with [] => bs "-" | _ => hex_encode b end.

Definition out_print (blocks : list bytes) : bytes :=
  bs "o=" ++ hex_or_dash (List.concat blocks) ++ bs " nl=" ++ bool_print (forallb ends_nl blocks).

(* lexicographic order on byte strings = Go's sort.Strings *)
Fixpoint bytes_leb (a b : bytes) : bool :=
  match a, b with
  | [], _ => true
  | _ :: _, [] => false
  | x :: a', y :: b' => if x <? y then true else if y <? x then false else bytes_leb a' b'
  end.
Fixpoint ins_sorted (x : bytes) (l : list bytes) : list bytes :=
  match l with
  | [] => [x]
  | y :: t => if bytes_leb x y then x :: l else y :: ins_sorted x t
  end.
Definition sort_lines (l : list bytes) : list bytes := fold_right ins_sorted [] l.

(* the address part of the (first) full pattern: the content of capture group 1 when the pattern
   has the shape  L (group 1: A) R *)
Definition group1_of (r : re) : option re :=
  match r with
  | Seq _ (Seq (Grp 1 a) _) => Some a
  | _ => None
  end.


Definition run (args : list bytes) : bytes :=
  match args with
  | [op; ty; a] =>
      if beq op (bs "evstr") then
        match payload_parse a with
        | Some b =>
            if beq ty (bs "offer") then hex_or_dash (event_string full_patterns 0 b)
            else if beq ty (bs "broker") then hex_or_dash (event_string full_patterns 1 b)
            else if beq ty (bs "failed") then hex_or_dash (event_string full_patterns 2 b)
            else ERR_BADCASE
        | None => ERR_BADCASE end
      else ERR_BADCASE
  | [op; a] =>
      if beq op (bs "scrub") then
        match payload_parse a with Some b => hex_or_dash (scrub full_patterns b) | None => ERR_BADCASE end
      else if beq op (bs "scrub0") then
        match payload_parse a with
        | Some b => hex_or_dash (scrub_v0 pinned_address_pattern pinned_full_patterns b)
        | None => ERR_BADCASE end
      else if beq op (bs "write") then
        match list_parse payload_parse a with
        | Some ws => out_print (fst (run_scratch (scrub full_patterns) ws))
        | None => ERR_BADCASE end
      else if beq op (bs "write0") then
        match list_parse payload_parse a with
        | Some ws => out_print (fst (run_writes (write_v0 (scrub_v0 pinned_address_pattern pinned_full_patterns)) [] ws))
        | None => ERR_BADCASE end
      else if beq op (bs "conc") then
        match map_opt (list_parse payload_parse) (split_on SEMI a) with
        | Some wss =>
            let blocks := flat_map (fun ws => fst (run_writes (write (scrub full_patterns)) [] ws)) wss in
            let ls := fst (split_lines (List.concat blocks)) in
            bs "o=" ++ hex_or_dash (List.concat (sort_lines ls)) ++ bs " nl=" ++ bool_print (forallb ends_nl blocks)
        | None => ERR_BADCASE end
      else if beq op (bs "spec") then
        match payload_parse a with Some b => bool_print (matchb addr_spec b) | None => ERR_BADCASE end
      else if beq op (bs "inclcex") then
        match full_patterns with
        | [full] =>
            match group1_of full with
            | Some A =>
                match incl_run addr_spec A with
                | XOk V => if incl addr_spec A then bs "included" else bs "certificate-rejected"
                | XCex w => bs "cex=" ++ hex_or_dash w
                | XFuel => bs "out-of-fuel"
                end
            | None => bs "shape: the full pattern is not  L (group 1) R"
            end
        | _ => bs "shape: not exactly one full pattern"
        end
      else ERR_BADCASE
  | _ => ERR_BADCASE
  end.
