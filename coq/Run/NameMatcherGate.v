(* NameMatcherGate.v — line-protocol adapters (harness glue, executable) for the machines of property C06:
   Model/BrokerGate.v (gstep/grun, bstep/brun) and Model/ProxyRelay.v (run_session, ws_dial, prun).
   Dispatched from Run/NameMatcherRun.v (area token "namematcher").

   One broker context per line (matching machine version V1 = the code as it is, one bridge 7 -> 9):

     gate <allowed> <presumed> <ev,ev,...>
         ev: p:<nat u|r|k>:<clients>:<kind s|l|n>:<pattern>   a poll enters the gate: grun on [G_ProxyPoll ..]
             c:<nat u|r|k>                                    a client offer is served to the end: grun on the
                                                              labels of Model/Broker.v for it (G_Other ..)
     bseq <allowed> <presumed> <ev,ev,...>
         ev: b:<body>:<jv>               IPC.ProxyPolls with this body; jv = the JSON value Go's parser sees
                                         (canonical token of Run/MessagesRun.v): brun on [B_Poll ..]
             i:<allowed>:<presumed>      InstallBridgeListProfile: brun on [B_Install ..]
             c:<nat>                     as above through brun on [B_Core ..]
     result: per event  registered | rejected | badrequest | installed | served:<k> | noproxies   (k = position of
             the poll that was handed the client, counted from 1), comma separated, then
             " avail=<len idToSnowflake> heap=<entries in the heaps>" and for bseq " with=.. without=.. rej=..".
     The client is given to the waiting eligible poll with the fewest clients (the generator keeps them distinct).

   One proxy per line:

     sess <stopper> <op relay> <op broker> <op probe> <op stun> <pattern> <allow01> <relay> <broker> <probe> <stun> <offer,offer,...>
         stopper, op *: how the Go side is configured before Start() (ignored here)
         relay: the effective sf.RelayURL as an offer token; broker/probe/stun: effective strings (payloads)
         offer: <raw>;E | <raw>;P;<scheme>;<host>;E | <raw>;P;<scheme>;<host>;P;<scheme2>;<host2>
                (Go's url.Parse of raw; then of the string printed from that parse with client_ip set)
     result: per offer  refuse | fatal | dial:none | dial:<tls01>:x<host>, comma separated: prun on the sessions,
             ws_dial on every string handed to the dialer. *)
From Coq Require Import List NArith ZArith Bool Arith String.
From Snow Require Import Lib.Wire Model.NameMatcher Model.RelayCheck Model.JsonBoundary Model.Messages
  Model.Broker Model.BrokerGate Model.ProxyRelay Run.MessagesRun Run.BrokerRun.
Import ListNotations.
Open Scope N_scope.

(* ---------------------------------------------------------------- broker histories *)

Inductive hev :=
| HPollG (n : natty) (cl : N) (pat : option bytes)
| HPollB (body : option json)
| HInstall (cfg : broker_cfg)
| HClient (n : natty).

Record hst := mk_hst {
  h_c : bctx;
  h_regs : list nat;      (* event position of the poll behind each entry of the matching core, in entry order *)
  h_out : list bytes;     (* per-event results, newest first *)
  h_k : nat               (* position of the next event, from 1 *)
}.

Fixpoint find_pick (cn : natty) (all es : list entry) (i : nat) : option nat :=
  match es with
  | [] => None
  | e :: r => if eligible cn e && is_min cn all e then Some i else find_pick cn all r (S i)
  end.

Definition FP : bytes := bs "7".
Definition colon_join (l : list bytes) : bytes := join [COLON] l.

(* the labels of Model/Broker.v (text form of Run/BrokerRun.v) for one client offer served to the end *)
Definition client_labels (s : state) (cn : natty) (k : nat) : option (list label * option nat) :=
  let o := dec_print (N.of_nat (100 + k)%nat) in
  let a := dec_print (N.of_nat (200 + k)%nat) in
  match find_pick cn (entries s) (entries s) 0%nat with
  | None => option_map (fun l => ([l], None)) (label_parse (colon_join [bs "C"; nat_print cn; FP; o; bs "-"]))
  | Some p =>
      match nth_error (entries s) p with
      | None => None
      | Some e =>
          let pp := dec_print (N.of_nat p) in
          option_map (fun ls => (ls, Some p))
            (map_opt label_parse
               [colon_join [bs "C"; nat_print cn; FP; o; pp]; colon_join [bs "RO"; pp]; colon_join [bs "RF"; pp];
                colon_join [bs "A"; dec_print (e_sid e); a]; colon_join [bs "AP"; pp]; colon_join [bs "TA"; pp];
                colon_join [bs "CC"; pp]])
      end
  end.

Definition served (s : state) (p : nat) : bool :=
  match nth_error (entries s) p with
  | Some e =>
      (match e_w e with W_Done (PMatch _) => true | _ => false end)
      && (match e_cl e with
          | Some c => match c_pc c with C_Done (CAnswer _) => true | _ => false end
          | None => false
          end)
  | None => false
  end.

Definition push (st : hst) (c : bctx) (regs : list nat) (o : bytes) : hst :=
  mk_hst c regs (o :: h_out st) (S (h_k st)).

Definition with_core (c : bctx) (s : state) : bctx := mk_bctx (b_cfg c) (b_metrics c) s.

Definition hstep (via_b : bool) (st : hst) (ev : hev) : option hst :=
  let c := h_c st in
  match ev with
  | HPollG n cl pat =>
      match grun (b_cfg c) V1 (b_core c) [G_ProxyPoll (N.of_nat (h_k st)) n 1 cl pat] with
      | Some (s', [Some Registered]) => Some (push st (with_core c s') (h_regs st ++ [h_k st]) (bs "registered"))
      | Some (s', [Some RejectedPattern]) => Some (push st (with_core c s') (h_regs st) (bs "rejected"))
      | _ => None
      end
  | HPollB body =>
      match brun V1 c [B_Poll body] with
      | Some (c', [PollReply Registered]) => Some (push st c' (h_regs st ++ [h_k st]) (bs "registered"))
      | Some (c', [PollReply RejectedPattern]) => Some (push st c' (h_regs st) (bs "rejected"))
      | Some (c', [BadRequest]) => Some (push st c' (h_regs st) (bs "badrequest"))
      | _ => None
      end
  | HInstall cfg =>
      match brun V1 c [B_Install cfg] with
      | Some (c', [Installed]) => Some (push st c' (h_regs st) (bs "installed"))
      | _ => None
      end
  | HClient cn =>
      match client_labels (b_core c) cn (h_k st) with
      | None => None
      | Some (ls, pick) =>
          let after : option bctx :=
            if via_b then option_map fst (brun V1 c (map B_Core ls))
            else option_map (fun r => with_core c (fst r)) (grun (b_cfg c) V1 (b_core c) (map G_Other ls)) in
          match after, pick with
          | Some c', None => Some (push st c' (h_regs st) (bs "noproxies"))
          | Some c', Some p =>
              if served (b_core c') p
              then Some (push st c' (h_regs st) (bs "served:" ++ dec_print (N.of_nat (nth p (h_regs st) 0%nat))))
              else None
          | None, _ => None
          end
      end
  end.

Fixpoint hrun (via_b : bool) (st : hst) (evs : list hev) : option hst :=
  match evs with
  | [] => Some st
  | ev :: r => match hstep via_b st ev with Some st' => hrun via_b st' r | None => None end
  end.

Definition pat_of_kind (kind pat : bytes) : option (option bytes) :=
  if beq kind (bs "s") then option_map Some (payload_parse pat)
  else if beq kind (bs "l") || beq kind (bs "n") then Some None
  else None.

Definition hev_parse (via_b : bool) (t : bytes) : option hev :=
  match split_on COLON t with
  | [k; a] => if beq k (bs "c") then option_map HClient (nat_parse a) else None
  | [k; a; b] =>
      if negb via_b then None
      else if beq k (bs "b") then
        match payload_parse a, jv_parse b with
        | Some _, Some j => Some (HPollB j)
        | _, _ => None
        end
      else if beq k (bs "i") then
        match payload_parse a, payload_parse b with
        | Some x, Some y => Some (HInstall (mk_broker_cfg x y))
        | _, _ => None
        end
      else None
  | [k; a; b; c; d] =>
      if via_b then None
      else if beq k (bs "p") then
        match nat_parse a, dec_parse b, pat_of_kind c d with
        | Some n, Some cl, Some pat => Some (HPollG n cl pat)
        | _, _, _ => None
        end
      else None
  | _ => None
  end.

Definition run_hist (via_b : bool) (a b evs : bytes) : bytes :=
  match payload_parse a, payload_parse b, list_parse (hev_parse via_b) evs with
  | Some allowed, Some presumed, Some (e :: es) =>
      match hrun via_b (mk_hst (binit (mk_broker_cfg allowed presumed) [(7, 9)]) [] [] 1%nat) (e :: es) with
      | None => bs "!disabled"
      | Some st =>
          let c := h_c st in
          list_print (rev (h_out st))
          ++ bs " avail=" ++ dec_print (N.of_nat (List.length (idmap (b_core c))))
          ++ bs " heap=" ++ dec_print (N.of_nat (count_inheap (b_core c)))
          ++ (if via_b then bs " with=" ++ dec_print (bm_with (b_metrics c))
                            ++ bs " without=" ++ dec_print (bm_without (b_metrics c))
                            ++ bs " rej=" ++ dec_print (bm_rejected (b_metrics c))
              else [])
      end
  | _, _, _ => ERR_BADCASE
  end.

(* ---------------------------------------------------------------- proxy sessions *)

(* an offer token: the raw string and the table entries of the library instance it contributes *)
Definition sess_offer_parse (it : bytes) : option (bytes * list (bytes * parsed_url)) :=
  match split_on SEMI it with
  | [raw; e] =>
      if beq e (bs "E") then option_map (fun r => (r, [(r, ParseError)])) (payload_parse raw) else None
  | [raw; p; sch; host; e] =>
      if beq p (bs "P") && beq e (bs "E") then
        match payload_parse raw, payload_parse sch, payload_parse host with
        | Some r, Some s, Some h => Some (r, [(r, Parsed s h); (redial_token r [], ParseError)])
        | _, _, _ => None
        end
      else None
  | [raw; p; sch; host; p2; sch2; host2] =>
      if beq p (bs "P") && beq p2 (bs "P") then
        match payload_parse raw, payload_parse sch, payload_parse host, payload_parse sch2, payload_parse host2 with
        | Some r, Some s, Some h, Some s2, Some h2 =>
            Some (r, [(r, Parsed s h); (redial_token r [], Parsed s2 h2)])
        | _, _, _, _, _ => None
        end
      else None
  | _ => None
  end.

Definition outcome_print (lib : urllib) (o : option session_outcome) : bytes :=
  match o with
  | None => bs "-"
  | Some SRefused => bs "refuse"
  | Some SFatal => bs "fatal"
  | Some (SDial t) =>
      match ws_dial lib t with
      | NoDial => bs "dial:none"
      | DialTo tls h => bs "dial:" ++ bool_print tls ++ bs ":x" ++ hex_encode h
      end
  end.

Definition run_sess (pat allow relay broker probe stun offers : bytes) : bytes :=
  match payload_parse pat, bool_parse allow, sess_offer_parse relay,
        payload_parse broker, payload_parse probe, payload_parse stun, list_parse sess_offer_parse offers with
  | Some p, Some al, Some (rl, rtbl), Some bu, Some pu, Some su, Some (o :: os) =>
      (* the strings the broker supplied first: a broker-supplied string equal to the configured one has the same parse *)
      let tbl := flat_map snd (o :: os) ++ rtbl in
      let lib := table_lib tbl in
      let conf := mk_proxy_conf rl p al bu pu su (bs "standalone") in
      let '(_, outs) := prun lib (pinit conf) (map (fun x => P_Session (fst x) []) (o :: os)) in
      list_print (map (outcome_print lib) outs)
  | _, _, _, _, _, _, _ => ERR_BADCASE
  end.
