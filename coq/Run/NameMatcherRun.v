(* NameMatcherRun.v — line-protocol adapter for Model/NameMatcher.v and Model/RelayCheck.v
   (area token "namematcher"; harness glue, executable).

     sup  <a> <b>                  v=<IsValidRule a> sup=<A ⊇ B judged> ma=<bitmap> mb=<bitmap>
                                   (bitmaps: IsMember over the 85 strings of length <= 3 on {a . ^ $})
     nm   <a> <b> <host>           v=.. sup=.. ma=<IsMember A host> mb=<IsMember B host>
     poll <allowed> <presumed> <kind> <pattern>       accept | reject
                                   kind: s = field present, l = field absent, n = field null
     url  <pattern> <allow01> <raw> E                 refuse | proceed
     url  <pattern> <allow01> <raw> P <scheme> <host>
     urlfull (same arguments)                         refuse | proceed:broker | proceed:configured
   All string arguments are payload specs (x<hex> / g<len>.<a>). *)
From Coq Require Import List NArith Bool Arith String.
From Snow Require Import Lib.Wire Model.NameMatcher Model.RelayCheck.
Import ListNotations.
Open Scope N_scope.

Definition bits (l : list bool) : bytes := map (fun b : bool => if b then 49 else 48) l.

Definition nm_head (a b : bytes) : bytes :=
  bs "v=" ++ bool_print (is_valid_rule a) ++ bs " sup=" ++
  bool_print (is_superset_of (new_matcher a) (new_matcher b)).

Definition decision_print (d : relay_decision) : bytes :=
  match d with
  | Refuse => bs "refuse"
  | DialBrokerURL => bs "proceed:broker"
  | DialConfigured => bs "proceed:configured"
  end.

Definition decision_print_coarse (d : relay_decision) : bytes :=
  match d with Refuse => bs "refuse" | _ => bs "proceed" end.

Definition run_url (op pat allow raw : bytes) (pu : option parsed_url) : bytes :=
  match payload_parse pat, bool_parse allow, payload_parse raw, pu with
  | Some p, Some al, Some r, Some u =>
      let d := proxy_relay_decision (mk_proxy_cfg p al) r u in
      if beq op (bs "url") then decision_print_coarse d
      else if beq op (bs "urlfull") then decision_print d
      else ERR_BADCASE
  | _, _, _, _ => ERR_BADCASE
  end.

Definition run (args : list bytes) : bytes :=
  match args with
  | [op; a; b] =>
      if beq op (bs "sup") then
        match payload_parse a, payload_parse b with
        | Some ra, Some rb =>
            nm_head ra rb ++ bs " ma=" ++ bits (map (is_member (new_matcher ra)) small_words)
                          ++ bs " mb=" ++ bits (map (is_member (new_matcher rb)) small_words)
        | _, _ => ERR_BADCASE
        end
      else ERR_BADCASE
  | [op; a; b; c] =>
      if beq op (bs "nm") then
        match payload_parse a, payload_parse b, payload_parse c with
        | Some ra, Some rb, Some h =>
            nm_head ra rb ++ bs " ma=" ++ bool_print (is_member (new_matcher ra) h)
                          ++ bs " mb=" ++ bool_print (is_member (new_matcher rb) h)
        | _, _, _ => ERR_BADCASE
        end
      else ERR_BADCASE
  | [op; a; b; c; d] =>
      if beq op (bs "poll") then
        match payload_parse a, payload_parse b, payload_parse d with
        | Some allowed, Some presumed, Some pat =>
            let cfg := mk_broker_cfg allowed presumed in
            let r := if beq c (bs "s") then Some (broker_accepts_poll cfg (Some pat))
                     else if beq c (bs "l") || beq c (bs "n") then Some (broker_accepts_poll cfg None)
                     else None in
            match r with
            | Some true => bs "accept"
            | Some false => bs "reject"
            | None => ERR_BADCASE
            end
        | _, _, _ => ERR_BADCASE
        end
      else if beq d (bs "E") then run_url op a b c (Some ParseError)
      else ERR_BADCASE
  | [op; a; b; c; d; e; f] =>
      if beq d (bs "P") then
        match payload_parse e, payload_parse f with
        | Some sch, Some host => run_url op a b c (Some (Parsed sch host))
        | _, _ => ERR_BADCASE
        end
      else ERR_BADCASE
  | _ => ERR_BADCASE
  end.
