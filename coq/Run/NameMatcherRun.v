(* NameMatcherRun.v — line-protocol adapter for Model/NameMatcher.v and Model/RelayCheck.v
   (area token "namematcher"; harness glue, executable).

     sup  <a> <b>                  v=<IsValidRule a> sup=<A ⊇ B judged> ma=<bitmap> mb=<bitmap>
                                   (bitmaps: IsMember over the 85 strings of length <= 3 on {a . ^ $})
     nm   <a> <b> <host>           v=.. sup=.. ma=<IsMember A host> mb=<IsMember B host>
     poll <allowed> <presumed> <kind> <pattern>       accept | reject
                                   kind: s = field present, l = field absent, n = field null
     url  <pattern> <allow01> <raw> E                 refuse | proceed
     url  <pattern> <allow01> <raw> P <scheme> <host>
     urlfull (same arguments)                         refuse | proceed:broker | proceed:configured
   Histories (one long-lived broker context / one long-lived SnowflakeProxy per case line; comma lists):
     pollseq <allowed> <presumed> <ev,ev,...>         one of accept | reject | installed per event
                                   ev: s<pattern> = field present, l = absent, n = null,
                                       c<allowed>;<presumed> = InstallBridgeListProfile with new patterns
     urlseq     <pattern> <allow01> <offer,offer,...> refuse | proceed per offer
     urlseqfull <pattern> <allow01> <offer,offer,...> refuse | proceed:broker | proceed:configured per offer
                                   offer: <raw>;E  or  <raw>;P;<scheme>;<host>
   Machines (Run/NameMatcherGate.v): gate / bseq = one broker context through grun / brun (polls through the gate
   or through the wire decoder, client offers served by the matching machine); sess = one proxy through prun
   (relay URL string -> check -> string handed to the dialer -> what the dialer connects to).
   main() (Run/NameMatcherMain.v): mainrun = the proxy binary from its command line to the decisions of its sessions.
   All string arguments are payload specs (x<hex> / g<len>.<a>). *)
From Coq Require Import List NArith Bool Arith String.
From Snow Require Import Lib.Wire Model.NameMatcher Model.RelayCheck Run.NameMatcherGate Run.NameMatcherMain.
Import ListNotations.
Open Scope N_scope.

Definition bits (l : list bool) : bytes := map (fun b : bool => if b then 49 else 48) l.

Definition nm_head (a b : bytes) : bytes :=
  bs "v=" ++ bool_print (is_valid_rule a) ++ bs " sup=" ++
  bool_print (is_superset_of (new_matcher a) (new_matcher b)).

Definition decision_print (d : relay_decision) : bytes :=
  match d with
  | Refuse => bs "refuse"
  | DialBrokerURL => bs "proceed:broker"
  | DialConfigured => bs "proceed:configured"
  end.

Definition decision_print_coarse (d : relay_decision) : bytes :=
  match d with Refuse => bs "refuse" | _ => bs "proceed" end.

Definition run_url (op pat allow raw : bytes) (pu : option parsed_url) : bytes :=
  match payload_parse pat, bool_parse allow, payload_parse raw, pu with
  | Some p, Some al, Some r, Some u =>
      let d := proxy_relay_decision (mk_proxy_cfg p al) r u in
      if beq op (bs "url") then decision_print_coarse d
      else if beq op (bs "urlfull") then decision_print d
      else ERR_BADCASE
  | _, _, _, _ => ERR_BADCASE
  end.

(* ---- histories ---- *)
Definition poll_event_parse (it : bytes) : option broker_event :=
  match it with
  | k :: rest =>
      if k =? 115 then option_map (fun p => EvPoll (Some p)) (payload_parse rest)
      else if (k =? 108) || (k =? 110) then match rest with [] => Some (EvPoll None) | _ => None end
      else if k =? 99 then
        match split_on SEMI rest with
        | [a; b] => match payload_parse a, payload_parse b with
                    | Some x, Some y => Some (EvInstall (mk_broker_cfg x y))
                    | _, _ => None
                    end
        | _ => None
        end
      else None
  | [] => None
  end.

Definition poll_answer_print (o : option bool) : bytes :=
  match o with Some true => bs "accept" | Some false => bs "reject" | None => bs "installed" end.

Definition run_pollseq (a b evs : bytes) : bytes :=
  match payload_parse a, payload_parse b, list_parse poll_event_parse evs with
  | Some allowed, Some presumed, Some (e :: es) =>
      list_print (map poll_answer_print (broker_run (mk_broker_cfg allowed presumed) (e :: es)))
  | _, _, _ => ERR_BADCASE
  end.

Definition offer_parse (it : bytes) : option relay_offer :=
  match split_on SEMI it with
  | [raw; e] => if beq e (bs "E") then option_map (fun r => (r, ParseError)) (payload_parse raw) else None
  | [raw; p; sch; host] =>
      if beq p (bs "P") then
        match payload_parse raw, payload_parse sch, payload_parse host with
        | Some r, Some s, Some h => Some (r, Parsed s h)
        | _, _, _ => None
        end
      else None
  | _ => None
  end.

Definition run_urlseq (op pat allow offers : bytes) : bytes :=
  match payload_parse pat, bool_parse allow, list_parse offer_parse offers with
  | Some p, Some al, Some (o :: os) =>
      let ds := proxy_run (mk_proxy_cfg p al) (o :: os) in
      if beq op (bs "urlseq") then list_print (map decision_print_coarse ds)
      else if beq op (bs "urlseqfull") then list_print (map decision_print ds)
      else ERR_BADCASE
  | _, _, _ => ERR_BADCASE
  end.

Definition run (args : list bytes) : bytes :=
  match args with
  | [op; a; b] =>
      if beq op (bs "sup") then
        match payload_parse a, payload_parse b with
        | Some ra, Some rb =>
            nm_head ra rb ++ bs " ma=" ++ bits (map (is_member (new_matcher ra)) small_words)
                          ++ bs " mb=" ++ bits (map (is_member (new_matcher rb)) small_words)
        | _, _ => ERR_BADCASE
        end
      else ERR_BADCASE
  | [op; a; b; c] =>
      if beq op (bs "nm") then
        match payload_parse a, payload_parse b, payload_parse c with
        | Some ra, Some rb, Some h =>
            nm_head ra rb ++ bs " ma=" ++ bool_print (is_member (new_matcher ra) h)
                          ++ bs " mb=" ++ bool_print (is_member (new_matcher rb) h)
        | _, _, _ => ERR_BADCASE
        end
      else if beq op (bs "pollseq") then run_pollseq a b c
      else if beq op (bs "gate") then run_hist false a b c
      else if beq op (bs "bseq") then run_hist true a b c
      else run_urlseq op a b c
  | [op; a; b; c; d] =>
      if beq op (bs "poll") then
        match payload_parse a, payload_parse b, payload_parse d with
        | Some allowed, Some presumed, Some pat =>
            let cfg := mk_broker_cfg allowed presumed in
            let r := if beq c (bs "s") then Some (broker_accepts_poll cfg (Some pat))
                     else if beq c (bs "l") || beq c (bs "n") then Some (broker_accepts_poll cfg None)
                     else None in
            match r with
            | Some true => bs "accept"
            | Some false => bs "reject"
            | None => ERR_BADCASE
            end
        | _, _, _ => ERR_BADCASE
        end
      else if beq d (bs "E") then run_url op a b c (Some ParseError)
      else ERR_BADCASE
  | [op; a; b; c; d; e] =>
      (* the proxy binary's main(): Run/NameMatcherMain.v *)
      if beq op (bs "mainrun") then run_mainrun a b c d e else ERR_BADCASE
  | [op; a; b; c; d; e; f] =>
      if beq d (bs "P") then
        match payload_parse e, payload_parse f with
        | Some sch, Some host => run_url op a b c (Some (Parsed sch host))
        | _, _ => ERR_BADCASE
        end
      else ERR_BADCASE
  | [op; stopper; orelay; obroker; oprobe; ostun; pat; allow; relay; broker; probe; stun; offers] =>
      (* stopper and the four operator strings configure the Go side (Start()); the model is given what Start() made of them *)
      if beq op (bs "sess") then
        match payload_parse orelay, payload_parse obroker, payload_parse oprobe, payload_parse ostun with
        | Some _, Some _, Some _, Some _ => run_sess pat allow relay broker probe stun offers
        | _, _, _, _ => ERR_BADCASE
        end
      else ERR_BADCASE
  | _ => ERR_BADCASE
  end.
