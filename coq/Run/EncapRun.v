(* EncapRun.v — line-protocol adapter for the Encap model (harness glue, executable). *)
From Coq Require Import List NArith Bool Arith String.
From Snow Require Import Lib.Wire Model.Encap Model.EncapFail Model.EncapServer.
Import ListNotations.
Open Scope N_scope.

Definition item_parse (t : bytes) : option item :=
  match t with
  | 100 :: p => option_map Data (payload_parse p)       (* d<payload> *)
  | 112 :: n => option_map Pad (dec_parse n)            (* p<n> *)
  | _ => None
  end.

Definition script_entry_parse (t : bytes) : option (nat * bool) :=
  match List.rev t with
  | 69 :: r => option_map (fun m => (m, true)) (dec_parse_nat (List.rev r))   (* <m>E *)
  | _ => option_map (fun m => (m, false)) (dec_parse_nat t)
  end.

Definition err_print (e : rerr) : bytes :=
  match e with EOF => bs "eof" | UnexpectedEOF => bs "ueof" | TooLong => bs "toolong" end.

Definition result_print (r : list bytes * rerr) : bytes :=
  bs "chunks=" ++ list_print (map (fun d => 120 :: hex_encode d) (fst r)) ++ bs " err=" ++ err_print (snd r).

(* pad: the projected observables of WritePadding(n) - how many bytes it puts on the stream, the count it
   returns, and what the reader (under the given script) makes of them; chunking and fill bytes are left free *)
Definition pad_print (n : N) (sc : script) : bytes :=
  let w := write_padding n in
  bs "len=" ++ dec_print (blen w) ++ bs " ret=" ++ dec_print n ++ [SP] ++ result_print (read_stream w sc).

Definition run (args : list bytes) : bytes :=
  match args with
  | [op; a] =>
      if beq op (bs "enc") then
        match list_parse item_parse a with
        | Some its => match encode_items its with
                      | Some s => hex_encode s
                      | None => bs "E:toolong"
                      end
        | None => ERR_BADCASE
        end
      else if beq op (bs "pad") then
        match dec_parse a with Some n => pad_print n [] | None => ERR_BADCASE end
      else if beq op (bs "max") then
        match dec_parse a with Some n => dec_print (max_data_for_size n) | None => ERR_BADCASE end
      else if beq op (bs "budget") then
        match dec_parse a with
        | Some n => let m := max_data_for_size n in
                    match write_data (zeros m) with
                    | Some w => dec_print m ++ [SP] ++ dec_print (blen w)
                    | None => bs "E:toolong"
                    end
        | None => ERR_BADCASE end
      else if beq op (bs "prefix") then
        match dec_parse a with
        | Some n => match prefix_for n with Some p => hex_encode p | None => bs "E:toolong" end
        | None => ERR_BADCASE end
      else ERR_BADCASE
  | [op; a; b] =>
      if beq op (bs "pad") then
        match dec_parse a, list_parse script_entry_parse b with
        | Some n, Some sc => pad_print n sc
        | _, _ => ERR_BADCASE
        end
      else if beq op (bs "dec") then
        match payload_parse a, list_parse script_entry_parse b with
        | Some s, Some sc => result_print (read_stream s sc)
        | _, _ => ERR_BADCASE
        end
      else if beq op (bs "decx") then
        (* the reader fails with a non-EOF error where the dec reader would report EOF *)
        match payload_parse a, list_parse script_entry_parse b with
        | Some s, Some sc =>
            let r := read_stream_x s sc in
            bs "chunks=" ++ list_print (map (fun d => 120 :: hex_encode d) (fst r)) ++ bs " err="
               ++ (match snd r with XIo => bs "io" | XTooLong => bs "toolong" end)
        | _, _ => ERR_BADCASE
        end
      (* srv: the server's reader (server/lib/http.go): token and ClientID by io.ReadFull, then ReadData in a loop, all on
         the same reader whose fragmentation (the carrier's WebSocket messages) is the script *)
      else if beq op (bs "srv") then
        match payload_parse a, list_parse script_entry_parse b with
        | Some s, Some sc =>
            match server_read s sc with
            | SShort e => bs "short err=" ++ err_print e
            | SOk tok cid ps e =>
                bs "tok=x" ++ hex_encode tok ++ bs " cid=x" ++ hex_encode cid ++ bs " packets="
                   ++ list_print (map (fun d => 120 :: hex_encode d) ps) ++ bs " err=" ++ err_print e
            end
        | _, _ => ERR_BADCASE
        end
      else if beq op (bs "dec0") then
        match payload_parse a, list_parse script_entry_parse b with
        | Some s, Some sc => result_print (read_stream_v0 s sc)
        | _, _ => ERR_BADCASE
        end
      else if beq op (bs "rt") then
        match list_parse item_parse a, list_parse script_entry_parse b with
        | Some its, Some sc =>
            match encode_items its with
            | Some s => result_print (read_stream s sc)
            | None => bs "E:toolong"
            end
        | _, _ => ERR_BADCASE
        end
      (* alloc/allocd: rt/dec with the allocation monitor; the model has no allocation, "over=0" is the claim
         that no ReadData call allocates more than the chunk it announces (observed, not proved) *)
      else if beq op (bs "alloc") then
        match list_parse item_parse a, list_parse script_entry_parse b with
        | Some its, Some sc =>
            match encode_items its with
            | Some s => result_print (read_stream s sc) ++ bs " over=0"
            | None => bs "E:toolong"
            end
        | _, _ => ERR_BADCASE
        end
      else if beq op (bs "allocd") then
        match payload_parse a, list_parse script_entry_parse b with
        | Some s, Some sc => result_print (read_stream s sc) ++ bs " over=0"
        | _, _ => ERR_BADCASE
        end
      else ERR_BADCASE
  | [op; a; b; c] =>
      (* pc: client/lib's encapsulationPacketConn.  WriteTo of every data item gives the wire; ReadFrom over the
         encoding of ALL items (paddings included) under the reader script, into a buffer of c bytes *)
      if beq op (bs "pc") then
        match list_parse item_parse a, list_parse script_entry_parse b, dec_parse_nat c with
        | Some its, Some sc, Some n =>
            let only_data := filter (fun i => match i with Data _ => true | Pad _ => false end) its in
            match encode_items only_data, encode_items its with
            | Some w, Some s =>
                let r := read_stream s sc in
                bs "wire=" ++ hex_encode w ++ bs " packets=" ++ list_print (map (fun d => 120 :: hex_encode (firstn n d)) (fst r))
                   ++ bs " err=" ++ err_print (snd r)
            | _, _ => bs "E:toolong"
            end
        | _, _, _ => ERR_BADCASE
        end
      else ERR_BADCASE
  | _ => ERR_BADCASE
  end.
