(* BrokerhttpRun.v — adapter for Model/BrokerHttp.v. The IPC outcome and the decoded ClientPollResponse
   are supplied per case (observed by the Go driver through a direct IPC call on the versioned twin).
   brokerhttp predict <h0|h1> <endpoint> <options 0|1> <read ok|toolarge> <legacy 0|1> <ipc ok|bad|internal|other> <resp x..> <decoded none|x<answer>:x<error>> <prefix_ok 0|1> <pathdec 0|1>
   -> status=<n> body=x<hex> | panic *)
From Coq Require Import List NArith Bool String.
From Snow Require Import Lib.Wire Model.BrokerHttp Model.B64Url Model.AmpPath.
Import ListNotations.
Open Scope N_scope.

Definition hresp_print (h : hresp) : bytes :=
  match h with
  | HPanic => bs "panic"
  | HResp st b => bs "status=" ++ dec_print st ++ bs " body=x" ++ hex_encode b
  end.

Definition run_predict (args : list bytes) : bytes :=
  match args with
  | [op; v; ep; opt; rd; leg; ipc; resp; dec; pfx; pdec] =>
      if negb (beq op (bs "predict")) then ERR_BADCASE else
      match (if beq v (bs "h0") then Some H0 else if beq v (bs "h1") then Some H1 else None),
            bool_parse opt, bool_parse leg, payload_parse resp, bool_parse pfx, bool_parse pdec with
      | Some ver, Some o, Some legacy, Some response, Some prefix_ok, Some pathdec =>
          let ipcv := if beq ipc (bs "ok") then IpcOk response
                      else if beq ipc (bs "bad") then IpcBadRequest
                      else if beq ipc (bs "internal") then IpcInternal else IpcOtherErr in
          let decoded : option cpresp :=
            if beq dec (bs "none") then None
            else match split_on COLON dec with
                 | [a; e] => match payload_parse a, payload_parse e with
                             | Some a', Some e' => Some {| r_answer := a'; r_error := e' |}
                             | _, _ => None
                             end
                 | _ => None
                 end in
          let rdv := if beq rd (bs "ok") then ReadOk (if legacy then [123] else [49]) else ReadTooLarge in
          let h :=
            if beq ep (bs "client") then
              client_offers (fun o n => [49]) (fun _ => decoded) (fun _ => ipcv) ver rdv []
            else if beq ep (bs "proxy") then proxy_polls (fun _ => ipcv) rdv
            else if beq ep (bs "answer") then proxy_answers (fun _ => ipcv) rdv
            else if beq ep (bs "amp") then
              amp_client_offers (fun e => bs "E") (fun p => if pathdec then Some [49] else None) (fun b => b) (fun _ => ipcv) prefix_ok []
            else HResp 0 [] in
          hresp_print (serve o h)
      | _, _, _, _, _, _ => ERR_BADCASE
      end
  | _ => ERR_BADCASE
  end.

(* ---------------- the refined model ----------------
   brokerhttp serve <via mux|amp|metrics> <method x> <urlpath x> <hdrs k:v,k:v|-> <body payload> <ipc ok|bad|internal|other>
                    <resp x> <dec none|xA:xE> <errresp x> <snow ptype:nat,...|-> <metrics n|x..> <prom x>
     -> status=<n> body=x<hex> cors=<0|1> nat=x<hex> ipc=<0|1> | panic
   via = mux: the route is chosen from the path; amp / metrics: that handler is called directly (as the in-package
   driver does with a path the mux would not let through / another metrics file).
   The IPC outcome of the (single) IPC call of the request and the views are supplied per case; the broker state
   is unit here (the state argument of the theorems is exercised by the seq cases of the check).
   brokerhttp debugview <snow> -> x<hex of the /debug body>
   brokerhttp hdrget <hdrs> <key x> -> x<hex> *)
Definition kv_parse (t : bytes) : option (bytes * bytes) :=
  match split_on COLON t with
  | [a; b] => match payload_parse a, payload_parse b with Some a', Some b' => Some (a', b') | _, _ => None end
  | _ => None
  end.
Definition opt_tok (t : bytes) : option (option bytes) :=
  if beq t (bs "n") then Some None else option_map Some (payload_parse t).
Definition amp_dec_real (p : bytes) : option bytes := match decode_path p with POk d => Some d | PErr _ => None end.

Definition resp_print (o : outc resp) : bytes :=
  match o with
  | Panicked => bs "panic"
  | Ret r => bs "status=" ++ dec_print (p_status r) ++ bs " body=x" ++ hex_encode (p_body r) ++ bs " cors=" ++ bool_print (p_cors r)
  end.

Definition run_serve (args : list bytes) : bytes :=
  match args with
  | [via; m; path; hdrs; body; ipc; resp; dec; errresp; snow; metrics; prom] =>
      match payload_parse m, payload_parse path, list_parse kv_parse hdrs, payload_parse body, payload_parse resp,
            payload_parse errresp, list_parse kv_parse snow, opt_tok metrics, payload_parse prom with
      | Some m, Some path, Some hdrs, Some body, Some response, Some errresp, Some snow, Some metrics, Some prom =>
          let ipcv := if beq ipc (bs "ok") then IpcOk response
                      else if beq ipc (bs "bad") then IpcBadRequest
                      else if beq ipc (bs "internal") then IpcInternal else IpcOtherErr in
          let decoded : option cpresp :=
            if beq dec (bs "none") then None
            else match split_on COLON dec with
                 | [a; e] => match payload_parse a, payload_parse e with
                             | Some a', Some e' => Some {| r_answer := a'; r_error := e' |}
                             | _, _ => None
                             end
                 | _ => None
                 end in
          let q := {| q_method := m; q_path := path; q_hdrs := hdrs; q_sent := body |} in
          let view := fun _ : unit => {| v_snowflakes := snow; v_metrics := metrics; v_prom := prom |} in
          let ipcf := fun (s : unit) (_ : bytes) => (ipcv, s) in
          let r := if beq via (bs "amp") then Some RAmp else if beq via (bs "metrics") then Some RMetrics
                   else if beq via (bs "mux") then Some (route_of path) else None in
          match r with
          | None => ERR_BADCASE
          | Some r =>
              let (o, _) := handle unit view (fun o n => [49]) (fun _ => decoded) (fun _ => errresp) amp_dec_real (fun b => b)
                                   ipcf ipcf ipcf H1 r tt q in
              resp_print (respond q o) ++ bs " nat=x" ++ hex_encode (header_get hdrs NAT_HEADER)
              ++ bs " ipc=" ++ bool_print (reaches_ipc amp_dec_real q)
          end
      | _, _, _, _, _, _, _, _, _ => ERR_BADCASE
      end
  | _ => ERR_BADCASE
  end.

(* ---------------- a legacy request and its versioned twin (C14_legacy_twin / C14_legacy_twin_over_limit) ----------------
   brokerhttp twinpair <hdrs k:v,...|-> <legacy body payload> <twin body payload> <ipc ok|bad|internal|other> <resp x> <dec none|xA:xE>
     -> lstatus=<n> lbody=x<hex> lipc=<n> tstatus=<n> tbody=x<hex> tipc=<n> over=<0|1>
   Executes [serve_req] on the legacy request q (POST /client, these header lines, this body) and on q' (POST /client, no
   NAT header, body = enc offer (header_get hdrs NAT_HEADER)) exactly as the two theorems relate them, with the encoder
   the constant function returning the supplied twin body (what EncodeClientPollRequest produced for this very request,
   observed on the Go side), so that the size hypothesis of the theorems is the real one. The state counts IPC calls:
   lipc / tipc = calls made by the legacy request / by the twin. over = READ_LIMIT_N < length of the twin. *)
Definition side_print (tag : bytes) (o : outc resp) (n : N) : bytes :=
  match o with
  | Panicked => tag ++ bs "status=panic " ++ tag ++ bs "body=x " ++ tag ++ bs "ipc=" ++ dec_print n
  | Ret r => tag ++ bs "status=" ++ dec_print (p_status r) ++ [32] ++ tag ++ bs "body=x" ++ hex_encode (p_body r)
             ++ [32] ++ tag ++ bs "ipc=" ++ dec_print n
  end.

Definition run_twinpair (args : list bytes) : bytes :=
  match args with
  | [hdrs; body; twin; ipc; resp; dec] =>
      match list_parse kv_parse hdrs, payload_parse body, payload_parse twin, payload_parse resp with
      | Some hdrs, Some body, Some twin, Some response =>
          let ipcv := if beq ipc (bs "ok") then IpcOk response
                      else if beq ipc (bs "bad") then IpcBadRequest
                      else if beq ipc (bs "internal") then IpcInternal else IpcOtherErr in
          let decoded : option cpresp :=
            if beq dec (bs "none") then None
            else match split_on COLON dec with
                 | [a; e] => match payload_parse a, payload_parse e with
                             | Some a', Some e' => Some {| r_answer := a'; r_error := e' |}
                             | _, _ => None
                             end
                 | _ => None
                 end in
          let enc := fun (_ _ : bytes) => twin in
          let view := fun _ : N => {| v_snowflakes := []; v_metrics := None; v_prom := [] |} in
          let ipcf := fun (s : N) (_ : bytes) => (ipcv, s + 1) in
          let srv := serve_req N view enc (fun _ => decoded) (fun e => e) amp_dec_real (fun b => b) ipcf ipcf ipcf H1 0 in
          let q := {| q_method := bs "POST"; q_path := bs "/client"; q_hdrs := hdrs; q_sent := body |} in
          let q' := {| q_method := bs "POST"; q_path := bs "/client"; q_hdrs := [];
                       q_sent := enc body (header_get hdrs NAT_HEADER) |} in
          let (o, s1) := srv q in
          let (o', s2) := srv q' in
          side_print (bs "l") o s1 ++ [32] ++ side_print (bs "t") o' s2 ++ bs " over="
          ++ bool_print (READ_LIMIT_N <? N.of_nat (List.length twin))
      | _, _, _, _ => ERR_BADCASE
      end
  | _ => ERR_BADCASE
  end.

Definition run (args : list bytes) : bytes :=
  match args with
  | op :: rest =>
      if beq op (bs "predict") then run_predict args
      else if beq op (bs "serve") then run_serve rest
      else if beq op (bs "twinpair") then run_twinpair rest
      else if beq op (bs "debugview") then
        match rest with
        | [snow] => match list_parse kv_parse snow with Some sf => 120 :: hex_encode (debug_body sf) | None => ERR_BADCASE end
        | _ => ERR_BADCASE
        end
      else if beq op (bs "hdrget") then
        match rest with
        | [hdrs; key] => match list_parse kv_parse hdrs, payload_parse key with
                         | Some h, Some k => 120 :: hex_encode (header_get h k)
                         | _, _ => ERR_BADCASE
                         end
        | _ => ERR_BADCASE
        end
      else ERR_BADCASE
  | [] => ERR_BADCASE
  end.
