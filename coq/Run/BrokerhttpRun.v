(* BrokerhttpRun.v — adapter for Model/BrokerHttp.v. The IPC outcome and the decoded ClientPollResponse
   are supplied per case (observed by the Go driver through a direct IPC call on the versioned twin).
   brokerhttp predict <h0|h1> <endpoint> <options 0|1> <read ok|toolarge> <legacy 0|1> <ipc ok|bad|internal|other> <resp x..> <decoded none|x<answer>:x<error>> <prefix_ok 0|1> <pathdec 0|1>
   -> status=<n> body=x<hex> | panic *)
From Coq Require Import List NArith Bool String.
From Snow Require Import Lib.Wire Model.BrokerHttp.
Import ListNotations.
Open Scope N_scope.

Definition hresp_print (h : hresp) : bytes :=
  match h with
  | HPanic => bs "panic"
  | HResp st b => bs "status=" ++ dec_print st ++ bs " body=x" ++ hex_encode b
  end.

Definition run (args : list bytes) : bytes :=
  match args with
  | [op; v; ep; opt; rd; leg; ipc; resp; dec; pfx; pdec] =>
      if negb (beq op (bs "predict")) then ERR_BADCASE else
      match (if beq v (bs "h0") then Some H0 else if beq v (bs "h1") then Some H1 else None),
            bool_parse opt, bool_parse leg, payload_parse resp, bool_parse pfx, bool_parse pdec with
      | Some ver, Some o, Some legacy, Some response, Some prefix_ok, Some pathdec =>
          let ipcv := if beq ipc (bs "ok") then IpcOk response
                      else if beq ipc (bs "bad") then IpcBadRequest
                      else if beq ipc (bs "internal") then IpcInternal else IpcOtherErr in
          let decoded : option cpresp :=
            if beq dec (bs "none") then None
            else match split_on COLON dec with
                 | [a; e] => match payload_parse a, payload_parse e with
                             | Some a', Some e' => Some {| r_answer := a'; r_error := e' |}
                             | _, _ => None
                             end
                 | _ => None
                 end in
          let rdv := if beq rd (bs "ok") then ReadOk (if legacy then [123] else [49]) else ReadTooLarge in
          let h :=
            if beq ep (bs "client") then
              client_offers (fun o n => [49]) (fun _ => decoded) (fun _ => ipcv) ver rdv []
            else if beq ep (bs "proxy") then proxy_polls (fun _ => ipcv) rdv
            else if beq ep (bs "answer") then proxy_answers (fun _ => ipcv) rdv
            else if beq ep (bs "amp") then
              amp_client_offers (fun e => bs "E") (fun p => if pathdec then Some [49] else None) (fun b => b) (fun _ => ipcv) prefix_ok []
            else HResp 0 [] in
          hresp_print (serve o h)
      | _, _, _, _, _, _ => ERR_BADCASE
      end
  | _ => ERR_BADCASE
  end.
