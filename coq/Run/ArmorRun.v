(* ArmorRun.v — line-protocol adapter for the AMP armor model (harness glue, executable).
     armor enc <payload>                     hex of armor_encode
     armor stream <payload> <sizes>          hex of armor_stream (payload cut into Writes of the
                                             given sizes, remainder in one last Write)
     armor dec <srcpat> <rbufpat> <doc> <hex>...
                                             the STREAMING decoder (Model/ArmorStream.v): the source delivers
                                             the document in Reads of the sizes of <srcpat> (cyclic, 0 = all
                                             the rest), the caller reads with buffers of the sizes of
                                             <rbufpat> (cyclic) until io.EOF or an error.  Result
                                             "ok x<data> g=<stuck>" or "E:<class> x<data before the error> g=<stuck>";
                                             g=1: the decoder's goroutine is blocked for ever.
                                             (a long document is spread over several tokens: payload spec, then raw hex)
     armor dec0 ...                          the same for the code before /repo commit 0dac441 (dec_read0)
     armor rt <payload> <sizes> <srcpat> <rbufpat>   dec of (stream ...)
     armor strict <doc> <hex>...             armor_decode (whole-document meaning)
     armor tok <doc> <hex>...                the token stream (Model/Armor.v tokens), Text() applied
     armor unesc <payload>                   hex of unescape (html.UnescapeString)
     armor ahead <srcpat> <rbufpat> <nreads> <doc> <hex>...
                                             at most <nreads> Reads, then the producer runs to its next Write:
                                             "<data> <-|eof|E:class> c=<source bytes consumed>"
     armor aheadg <rbufpat> <nreads> <need> <doc> <hex>...
                                             the same with a source that returns as much as each Read asks for;
                                             <need> = the c of "ahead 1 ..." (what a byte-wise source would have
                                             delivered).  "<data> <end> c=ok": the implementation prints c=over:<n>
                                             when it consumed more than need + 3*64 KiB
     armor b64 <payload>                     hex of b64_encode
     armor b64d <payload>                    b64_decode
     armor boiler                            hex(start) "." hex(end)
     armor mon <srcpat> <rbufpat> <doc> <hex>...  "returns" (monitors on the implementation only) *)
From Coq Require Import List NArith Bool Arith String.
From Snow Require Import Lib.Wire Model.Base64 Model.Armor Model.ArmorStream.
Import ListNotations.
Open Scope N_scope.

Fixpoint cut (p : bytes) (sizes : list nat) : list bytes :=
  match sizes with
  | [] => match p with [] => [] | _ => [p] end
  | k :: ks => firstn k p :: cut (skipn k p) ks
  end.

Definition doc_parse (a : bytes) (more : list bytes) : option bytes :=
  match payload_parse a, map_opt hex_decode more with
  | Some p, Some ps => Some (p ++ List.concat ps)
  | _, _ => None
  end.

Definition err_print (e : derr) : bytes :=
  match e with
  | EUnknownVersion => bs "version"
  | EOversize => bs "oversize"
  | EBadBase64 => bs "b64"
  | EEmpty => bs "empty"
  | EStray | ENested | EUnterminated | ETooLong => bs "err"   (* untyped / not distinguished by the driver *)
  end.

Definition res_print (r : dres) : bytes :=
  match r with
  | DOk d => bs "ok x" ++ hex_encode d
  | DErr e => bs "E:" ++ err_print e
  end.

Definition sres_print (r : sres tks) : bytes :=
  (match s_end r with
   | Some REOF => bs "ok x" ++ hex_encode (s_data r)
   | Some (RErr e) => bs "E:" ++ err_print e ++ bs " x" ++ hex_encode (s_data r)
   | None => bs "!fuel"
   end) ++ bs " g=" ++ bool_print (sp_stuck (s_prod r)).

Definition stream_run (srcpat rbufpat : list nat) (doc : bytes) : bytes :=
  sres_print (armor_stream_decode (cut_doc srcpat doc) (size_fun rbufpat) (fuel_for doc)).
(* the code before /repo commit 0dac441 (proposed-fixes/C10-decoder-goroutine-leak-b64err.diff) *)
Definition stream_run0 (srcpat rbufpat : list nat) (doc : bytes) : bytes :=
  sres_print (armor_stream_decode0 (cut_doc srcpat doc) (size_fun rbufpat) (fuel_for doc)).

Definition tok_print (t : tok) : bytes :=
  match t with
  | TkText k d => bs "T" ++ hex_encode (text_data k d)
  | TkStart n => bs "S" ++ hex_encode n
  | TkEnd n => bs "E" ++ hex_encode n
  | TkOther => bs "O"
  | TkEOF => bs "!eof"
  | TkOver => bs "!over"
  end.
(* up to the first ErrorToken *)
Fixpoint toks_print (ts : list tok) : list bytes :=
  match ts with
  | [] => []
  | TkEOF :: _ => [tok_print TkEOF]
  | TkOver :: _ => [tok_print TkOver]
  | t :: r => tok_print t :: toks_print r
  end.

Definition rend_print (e : option rend) : bytes :=
  match e with
  | None => bs "-"
  | Some REOF => bs "eof"
  | Some (RErr e) => bs "E:" ++ err_print e
  end.

Definition ahead_run (srcpat rbufpat : list nat) (nreads : nat) (doc : bytes) : bytes :=
  match sdec_new (cut_doc srcpat doc) with
  | NewErr _ e p => bs "x " ++ rend_print (Some (RErr e)) ++ bs " c=" ++ dec_print (p_consumed (sp_fill p))
  | NewOk _ d =>
      let '(b, e, d') := read_all tks sdec_read nreads (size_fun rbufpat) 0 d [] in
      bs "x" ++ hex_encode b ++ [SP] ++ rend_print e ++ bs " c=" ++ dec_print (p_consumed (sp_fill (d_p d')))
  end.

Definition aheadg_run (rbufpat : list nat) (nreads : nat) (doc : bytes) : bytes :=
  match sdec_new [doc] with
  | NewErr _ e p => bs "x " ++ rend_print (Some (RErr e)) ++ bs " c=ok"
  | NewOk _ d =>
      let '(b, e, d') := read_all tks sdec_read nreads (size_fun rbufpat) 0 d [] in
      bs "x" ++ hex_encode b ++ [SP] ++ rend_print e ++ bs " c=ok"
  end.

Definition run (args : list bytes) : bytes :=
  match args with
  | op :: rest =>
      if beq op (bs "boiler") then
        match rest with
        | [] => hex_encode boilerplate_start ++ [DOT] ++ hex_encode boilerplate_end
        | _ => ERR_BADCASE
        end
      else if beq op (bs "dec") || beq op (bs "mon") || beq op (bs "dec0") then
        match rest with
        | b :: c :: a :: more =>
            match doc_parse a more, list_parse dec_parse_nat b, list_parse dec_parse_nat c with
            | Some p, Some sp, Some rp =>
                if beq op (bs "dec") then stream_run sp rp p
                else if beq op (bs "dec0") then stream_run0 sp rp p else bs "returns"
            | _, _, _ => ERR_BADCASE
            end
        | _ => ERR_BADCASE
        end
      else if beq op (bs "ahead") then
        match rest with
        | b :: c :: k :: a :: more =>
            match doc_parse a more, list_parse dec_parse_nat b, list_parse dec_parse_nat c, dec_parse_nat k with
            | Some p, Some sp, Some rp, Some k => ahead_run sp rp k p
            | _, _, _, _ => ERR_BADCASE
            end
        | _ => ERR_BADCASE
        end
      else if beq op (bs "aheadg") then
        match rest with
        | c :: k :: nd :: a :: more =>
            match doc_parse a more, list_parse dec_parse_nat c, dec_parse_nat k, dec_parse nd with
            | Some p, Some rp, Some k, Some _ => aheadg_run rp k p
            | _, _, _, _ => ERR_BADCASE
            end
        | _ => ERR_BADCASE
        end
      else if beq op (bs "strict") || beq op (bs "tok") then
        match rest with
        | a :: more =>
            match doc_parse a more with
            | Some p => if beq op (bs "strict") then res_print (armor_decode p)
                        else join [COMMA] (toks_print (tokens p))
            | None => ERR_BADCASE
            end
        | _ => ERR_BADCASE
        end
      else if beq op (bs "rt") then
        match rest with
        | [a; b; c; d] =>
            match payload_parse a, list_parse dec_parse_nat b, list_parse dec_parse_nat c, list_parse dec_parse_nat d with
            | Some p, Some sz, Some sp, Some rp => stream_run sp rp (armor_stream (cut p sz))
            | _, _, _, _ => ERR_BADCASE
            end
        | _ => ERR_BADCASE
        end
      else if beq op (bs "stream") then
        match rest with
        | [a; b] =>
            match payload_parse a, list_parse dec_parse_nat b with
            | Some p, Some sz => hex_encode (armor_stream (cut p sz))
            | _, _ => ERR_BADCASE
            end
        | _ => ERR_BADCASE
        end
      else
        match rest with
        | [a] =>
            match payload_parse a with
            | None => ERR_BADCASE
            | Some p =>
                if beq op (bs "enc") then hex_encode (armor_encode p)
                else if beq op (bs "b64") then hex_encode (b64_encode p)
                else if beq op (bs "unesc") then hex_encode (unescape p)
                else if beq op (bs "b64d") then
                  match b64_decode p with Some d => bs "ok x" ++ hex_encode d | None => bs "E:b64" end
                else ERR_BADCASE
            end
        | _ => ERR_BADCASE
        end
  | [] => ERR_BADCASE
  end.
