(* ArmorRun.v — line-protocol adapter for the AMP armor model (harness glue, executable).
     armor enc <payload>                     hex of armor_encode
     armor stream <payload> <sizes>          hex of armor_stream (payload cut into Writes of the
                                             given sizes, remainder in one last Write)
     armor dec <srcchunk> <rbuf> <doc> <hex>...   result of armor_decode (the two read sizes only
                                             drive the implementation; a long document is spread
                                             over several tokens: payload spec, then raw hex)
     armor rt <payload> <sizes> <srcchunk> <rbuf>   decode (stream ...)
     armor b64 <payload>                     hex of b64_encode
     armor b64d <payload>                    b64_decode
     armor boiler                            hex(start) "." hex(end)
     armor mon <srcchunk> <rbuf> <doc> <hex>...  "returns" (monitors on the implementation only) *)
From Coq Require Import List NArith Bool Arith String.
From Snow Require Import Lib.Wire Model.Base64 Model.Armor.
Import ListNotations.
Open Scope N_scope.

Fixpoint cut (p : bytes) (sizes : list nat) : list bytes :=
  match sizes with
  | [] => match p with [] => [] | _ => [p] end
  | k :: ks => firstn k p :: cut (skipn k p) ks
  end.

Definition doc_parse (a : bytes) (more : list bytes) : option bytes :=
  match payload_parse a, map_opt hex_decode more with
  | Some p, Some ps => Some (p ++ List.concat ps)
  | _, _ => None
  end.

Definition err_print (e : derr) : bytes :=
  match e with
  | EUnknownVersion => bs "version"
  | EOversize => bs "oversize"
  | EBadBase64 => bs "b64"
  | EEmpty => bs "empty"
  | EStray | ENested | EUnterminated => bs "err"   (* untyped fmt.Errorf in the Go code *)
  end.

Definition res_print (r : dres) : bytes :=
  match r with
  | DOk d => bs "ok x" ++ hex_encode d
  | DErr e => bs "E:" ++ err_print e
  end.

Definition run (args : list bytes) : bytes :=
  match args with
  | op :: rest =>
      if beq op (bs "boiler") then
        match rest with
        | [] => hex_encode boilerplate_start ++ [DOT] ++ hex_encode boilerplate_end
        | _ => ERR_BADCASE
        end
      else if beq op (bs "dec") || beq op (bs "mon") then
        match rest with
        | b :: c :: a :: more =>
            match doc_parse a more, dec_parse b, dec_parse c with
            | Some p, Some _, Some _ =>
                if beq op (bs "dec") then res_print (armor_decode p) else bs "returns"
            | _, _, _ => ERR_BADCASE
            end
        | _ => ERR_BADCASE
        end
      else if beq op (bs "rt") then
        match rest with
        | [a; b; c; d] =>
            match payload_parse a, list_parse dec_parse_nat b, dec_parse c, dec_parse d with
            | Some p, Some sz, Some _, Some _ => res_print (armor_decode (armor_stream (cut p sz)))
            | _, _, _, _ => ERR_BADCASE
            end
        | _ => ERR_BADCASE
        end
      else if beq op (bs "stream") then
        match rest with
        | [a; b] =>
            match payload_parse a, list_parse dec_parse_nat b with
            | Some p, Some sz => hex_encode (armor_stream (cut p sz))
            | _, _ => ERR_BADCASE
            end
        | _ => ERR_BADCASE
        end
      else
        match rest with
        | [a] =>
            match payload_parse a with
            | None => ERR_BADCASE
            | Some p =>
                if beq op (bs "enc") then hex_encode (armor_encode p)
                else if beq op (bs "b64") then hex_encode (b64_encode p)
                else if beq op (bs "b64d") then
                  match b64_decode p with Some d => bs "ok x" ++ hex_encode d | None => bs "E:b64" end
                else ERR_BADCASE
            end
        | _ => ERR_BADCASE
        end
  | [] => ERR_BADCASE
  end.
