(* AmpPathRun.v — line-protocol adapter for the C11 models (harness glue, executable).
   Area token: amppath. *)
From Coq Require Import List NArith Bool Arith String.
From Snow Require Import Lib.Wire Model.B64Url Model.AmpPath Model.CacheURL Model.Rendezvous.
From Snow Require Model.BrokerHttp.
Import ListNotations.
Open Scope N_scope.

Definition xhex (d : bytes) : bytes := 120 :: hex_encode d.

Definition path_res_print (r : path_res) : bytes :=
  match r with
  | POk d => bs "ok " ++ xhex d
  | PErr BadBase64 => bs "err:b64"
  | PErr _ => bs "err:path"
  end.

(* projected shape of an encoded path: first byte, number of bytes up to the first
   slash, whether those are all base64url characters, and everything after that slash *)
Fixpoint until_first (sep : N) (l : bytes) : bytes :=
  match l with
  | [] => []
  | c :: r => if c =? sep then [] else c :: until_first sep r
  end.
Definition all_urlchars (l : bytes) : bool :=
  forallb (fun c => match u_dec_char c with Some _ => true | None => false end) l.
Definition shape_print (p : bytes) : bytes :=
  match p with
  | [] => bs "empty"
  | v :: rest =>
      let pad := until_first SLASH rest in
      xhex [v] ++ [SP] ++ dec_print (N.of_nat (List.length pad)) ++ [SP] ++ bool_print (all_urlchars pad)
      ++ [SP] ++ match after_first SLASH rest with Some t => xhex t | None => bs "noslash" end
  end.

Definition run_path (args : list bytes) : option bytes :=
  match args with
  | op :: a :: _ =>
      if beq op (bs "dec") then
        option_map (fun p => path_res_print (decode_path p)) (payload_parse a)
      else if beq op (bs "encshape") then
        option_map (fun d => shape_print (encode_path (repeat 0 9) d)) (payload_parse a)
      else if beq op (bs "rt") then
        option_map (fun d => path_res_print (decode_path (encode_path (repeat 0 9) d))) (payload_parse a)
      else if beq op (bs "b64") then
        option_map (fun d => xhex (u_encode d)) (payload_parse a)
      else if beq op (bs "encwith") then
        (* encwith <cache breaker> <data>: the encoder on the very bytes crypto/rand handed out *)
        match args with
        | [_; _; b] => match payload_parse a, payload_parse b with
                       | Some cb, Some d => Some (xhex (encode_path cb d) ++ [SP] ++ path_res_print (decode_path (encode_path cb d)))
                       | _, _ => None
                       end
        | _ => None
        end
      else None
  | _ => None
  end.

(* ---------- cache URL ops ---------- *)

(* "n" = None / nil / library error; otherwise a payload *)
Definition opt_payload_parse (t : bytes) : option (option bytes) :=
  if beq t (bs "n") then Some None else option_map Some (payload_parse t).
Definition opt_print (o : option bytes) : bytes :=
  match o with Some d => xhex d | None => bs "n" end.

Definition pub_parse (t : bytes) : option pub_url :=
  match list_parse payload_parse t with
  | Some [sc; us; hn; po; ep; rq; fr] =>
      Some {| p_scheme := sc; p_user := negb (beq us []); p_hostname := hn; p_port := po;
              p_epath := ep; p_rawquery := rq; p_fragment := fr |}
  | _ => None
  end.
Definition cache_parse (t : bytes) : option cache_url_t :=
  match list_parse opt_payload_parse t with
  | Some [Some sc; us; Some hn; Some po; Some ep; Some rq; Some fr] =>
      Some {| c_scheme := sc; c_user := us; c_hostname := hn; c_port := po;
              c_epath := ep; c_rawquery := rq; c_fragment := fr |}
  | _ => None
  end.

Definition res_print (r : option res_url) : bytes :=
  match r with
  | None => bs "err"
  | Some u => bs "ok " ++ xhex (r_scheme u) ++ [SP] ++ opt_print (r_user u) ++ [SP] ++ xhex (r_host u)
              ++ [SP] ++ xhex (r_rawpath u) ++ [SP] ++ xhex (r_rawquery u) ++ [SP] ++ xhex (r_fragment u)
              ++ bs " ep=1"
  end.

(* The library oracles of one case: ToUnicode(hostname) = ou, ToASCII(pre) = oa,
   sha256(hostname) = sha.  A ToASCII query on anything but `pre` means the case line was
   not prepared for this model version: visible as "!oracle-miss". *)
Definition run_cacheurl (h34 : bytes -> bool) (pu : pub_url) (cu : cache_url_t) (ct : bytes)
                        (ou : option bytes) (pre : option bytes) (oa : option bytes) (sha : bytes) : bytes :=
  let miss := match ou, pre with
              | Some u, Some p => negb (beq (steps234 h34 u) p)
              | Some _, None => true
              | None, _ => false
              end in
  if miss then bs "!oracle-miss"
  else res_print (cache_url (fun _ => ou) (fun _ => oa) (fun _ => sha) h34 pu cu ct).

Definition run_cache (args : list bytes) : option bytes :=
  match args with
  | [op; a] =>
      if beq op (bs "pre") then option_map (fun u => xhex (steps234 h34_runes u)) (payload_parse a)
      else if beq op (bs "pre0") then option_map (fun u => xhex (steps234 h34_bytes u)) (payload_parse a)
      else if beq op (bs "clean") then option_map (fun u => xhex (path_clean u)) (payload_parse a)
      else if beq op (bs "join") then option_map (fun l => xhex (path_join l)) (list_parse payload_parse a)
      else if beq op (bs "pesc") then option_map (fun u => xhex (path_escape u)) (payload_parse a)
      else if beq op (bs "punesc") then option_map (fun u => bool_print (valid_escapes u)) (payload_parse a)
      else if beq op (bs "h34r") then option_map (fun u => bool_print (h34_runes u)) (payload_parse a)
      else if beq op (bs "b32") then option_map (fun u => xhex (b32_encode u)) (payload_parse a)
      else if beq op (bs "utf8") then option_map (fun l => xhex (utf8_encode l)) (list_parse dec_parse a)
      else None
  | [op; a; b] =>
      if beq op (bs "jhp") then
        match payload_parse a, payload_parse b with
        | Some h, Some p => Some (xhex (join_host_port h p))
        | _, _ => None
        end
      else if beq op (bs "resolve") then
        (* resolve <base escaped path> <relative reference> -> the path of base.ResolveReference(&url.URL{Path: ref}) *)
        match payload_parse a, payload_parse b with
        | Some base, Some ref => Some (xhex (resolve_path base ref))
        | _, _ => None
        end
      else None
  | [op; _; _; ct; pf; cf; ou; pre; oa; sha] =>
      let h34 := if beq op (bs "cacheurl") then Some h34_runes
                 else if beq op (bs "cacheurl0") then Some h34_bytes else None in
      match h34, payload_parse ct, pub_parse pf, cache_parse cf, opt_payload_parse ou,
            opt_payload_parse pre, opt_payload_parse oa, payload_parse sha with
      | Some h, Some ct, Some pu, Some cu, Some ou, Some pre, Some oa, Some sha =>
          Some (run_cacheurl h pu cu ct ou pre oa sha)
      | _, _, _, _, _, _, _, _ => None
      end
  | _ => None
  end.

(* ---------- rendezvous ops ---------- *)

Definition broker_parse (t : bytes) : option broker_url :=
  match list_parse payload_parse t with
  | Some [sc; us; ho; hn; po; ep] =>
      Some {| b_scheme := sc; b_user := negb (beq us []); b_host := ho; b_hostname := hn; b_port := po; b_epath := ep |}
  | _ => None
  end.

Definition req_print (q : option request) : bytes :=
  match q with
  | None => bs "req=none"
  | Some q => bs "req=" ++ join [COMMA] [xhex (q_method q); xhex (q_scheme q); xhex (q_connect_host q);
                                        xhex (q_host_header q); xhex (q_path q); xhex (q_rawquery q);
                                        opt_print (q_body q)]
  end.
Definition res_body_print (served : bytes) (r : option bytes) : bytes :=
  match r with
  | None => bs "res=err"
  | Some d => bs "res=ok n=" ++ dec_print (N.of_nat (List.length d)) ++ bs " same=" ++ bool_print (beq d served)
  end.

Definition run_rdv (args : list bytes) : option bytes :=
  match args with
  | [op; _; front; data; status; resp; bf] =>
      if beq op (bs "http") then
        match payload_parse front, payload_parse data, dec_parse status, payload_parse resp, broker_parse bf with
        | Some front, Some data, Some status, Some resp, Some b =>
            Some (req_print (Some (http_request b front data)) ++ [SP]
                  ++ res_body_print resp (http_response READ_LIMIT status resp))
        | _, _, _, _, _ => None
        end
      else None
  | [op; _; _; front; data; status; loc; resp; bodysize; alen; bf; cf; ou; pre; oa; sha; cbt] =>
      if beq op (bs "amp") then
        match payload_parse front, payload_parse data, dec_parse status, bool_parse loc, payload_parse resp,
              dec_parse bodysize, dec_parse alen, broker_parse bf,
              (if beq cf (bs "n") then Some None else option_map Some (cache_parse cf)),
              opt_payload_parse ou, opt_payload_parse pre, opt_payload_parse oa, payload_parse sha, payload_parse cbt with
        | Some front, Some data, Some status, Some loc, Some resp, Some bodysize, Some alen, Some b, Some cache,
          Some ou, Some pre, Some oa, Some sha, Some cbv =>
            let miss := match cache, ou, pre with
                        | Some _, Some u, Some p => negb (beq (steps234 h34_runes u) p)
                        | Some _, Some _, None => true
                        | _, _, _ => false
                        end in
            if miss then Some (bs "!oracle-miss") else
            let n := N.to_nat (N.max bodysize alen) in
            let body := repeat 32 n in
            let adec := fun lr : bytes => if Nat.eqb (List.length lr) n then Some resp else None in
            let q := amp_request (fun _ => ou) (fun _ => oa) (fun _ => sha) h34_runes b cache front cbv data in
            Some (req_print q ++ [SP] ++
                  match q with
                  | None => bs "res=err"
                  | Some _ => res_body_print resp (amp_response adec READ_LIMIT status loc body)
                  end)
        | _, _, _, _, _, _, _, _, _, _, _, _, _, _ => None
        end
      else None
  | _ => None
  end.

(* ---------- broker twin-endpoint op ---------- *)

(* broker <scenario> <answer> <body> <urlpath> <poststatus> <postbody> <errresp>:
   IPC.ClientOffers on <body> is what the POST endpoint showed; armor is left out (the
   driver prints the armor-decoded AMP body) *)
Definition run_broker (args : list bytes) : option bytes :=
  match args with
  | [op; _; _; body; upath; pst; pbody; errresp] =>
      if beq op (bs "broker") then
        match payload_parse body, payload_parse upath, dec_parse pst, payload_parse pbody with
        | Some body, Some upath, Some pst, Some pbody =>
            let co := fun b : bytes => if beq b body then (if pst =? 200 then Some pbody else None)
                                       else Some (bs "!other-body") in
            let er := match split_on COMMA errresp with
                      | [st; b] => if beq st (bs "200") then payload_parse b else None
                      | _ => None
                      end in
            let r := amp_handler co (fun x => x) er upath in
            Some (bs "amp=" ++ dec_print (h_status r) ++ [COMMA] ++ xhex (h_body r))
        | _, _, _, _ => None
        end
      else None
  | _ => None
  end.

(* broker2 <scenario> <answer> <body> <urlpath> <ipc ok,x<resp>|err> <shim n | <ipc ok|bad|internal|other>,x<resp>,<none|xA:xE>> <errresp>:
   BOTH handlers of the model - post_handler and amp_handler - on the outcome of IPC.ClientOffers observed by a direct call
   (for a '{'-leading body additionally the outcome of the call on the shimmed body, which feeds the legacy branch as modelled
   for C14: BrokerHttp.client_offers). Armor is left out (the driver prints the armor-decoded AMP body). *)
Definition reply_print (r : http_reply) : bytes := dec_print (h_status r) ++ [COMMA] ++ xhex (h_body r).
Definition ipc_tok (t : bytes) : option (option bytes) :=
  if beq t (bs "err") then Some None
  else match split_on COMMA t with
       | [o; b] => if beq o (bs "ok") then option_map Some (payload_parse b) else None
       | _ => None
       end.
Definition hresp_reply (h : BrokerHttp.hresp) : http_reply :=
  match h with BrokerHttp.HResp st b => {| h_status := st; h_body := b |} | BrokerHttp.HPanic => {| h_status := 0; h_body := bs "panic" |} end.
Definition shim_fun (t : bytes) : option (bytes -> http_reply) :=
  if beq t (bs "n") then Some (fun _ => {| h_status := 0; h_body := bs "no-shim-oracle" |})
  else match split_on COMMA t with
       | [o; b; d] =>
           match payload_parse b with
           | Some resp =>
               let ipcv := if beq o (bs "ok") then BrokerHttp.IpcOk resp else if beq o (bs "bad") then BrokerHttp.IpcBadRequest
                           else if beq o (bs "internal") then BrokerHttp.IpcInternal else BrokerHttp.IpcOtherErr in
               let decoded : option BrokerHttp.cpresp :=
                 match split_on COLON d with
                 | [a; e] => match payload_parse a, payload_parse e with
                             | Some a', Some e' => Some {| BrokerHttp.r_answer := a'; BrokerHttp.r_error := e' |}
                             | _, _ => None
                             end
                 | _ => None
                 end in
               Some (fun body => hresp_reply (BrokerHttp.client_offers (fun _ _ => [49]) (fun _ => decoded) (fun _ => ipcv) BrokerHttp.H1 (BrokerHttp.ReadOk body) []))
           | None => None
           end
       | _ => None
       end.
Definition run_broker2 (args : list bytes) : option bytes :=
  match args with
  | [op; _; _; body; upath; ipc; shim; errresp] =>
      if beq op (bs "broker2") then
        match payload_parse body, payload_parse upath, ipc_tok ipc, shim_fun shim with
        | Some body, Some upath, Some ipcv, Some lp =>
            let co := fun b : bytes => if beq b body then ipcv else Some (bs "!other-body") in
            let er := match split_on COMMA errresp with
                      | [st; b] => if beq st (bs "200") then payload_parse b else None
                      | _ => None
                      end in
            Some (bs "post=" ++ reply_print (post_handler co lp body) ++ bs " amp=" ++ reply_print (amp_handler co (fun x => x) er upath))
        | _, _, _, _ => None
        end
      else None
  | _ => None
  end.

(* ---------- one rendezvous object over a sequence of Exchanges (Model/Rendezvous.v rdv_run) ----------
   seq <h|a> <broker> <cache|n> <front> <bf> <cf|n> <ou> <pre> <oa> <sha> <ev;ev;...>
   ev = <poll>:<cache breaker>:<status|e>:<location 0|1>:<response>:<bodysize>:<armored length>
   "e" = the transport returns an error.  HTTP: the served body is <response>.  AMP: the served body is the armored
   response padded to max(bodysize, armored length) bytes; here it is the event's index followed by spaces, and the
   armor decoder of the case is the table of those bodies (as for op amp: armor itself is C10's area).
   Answer: per event "req=.. res=.. first=same", joined by " | " ("first" is the request a NEW object makes for the
   same poll, printed by the driver only when it differs: in the model it is the same by rdv_run_at_is_first). *)
Definition seq_ev_parse (t : bytes) : option (rdv_event * (bytes * N)) :=
  match split_on COLON t with
  | [poll; cb; st; loc; resp; bodysize; alen] =>
      match payload_parse poll, payload_parse cb, bool_parse loc, payload_parse resp, dec_parse bodysize, dec_parse alen with
      | Some poll, Some cb, Some loc, Some resp, Some bodysize, Some alen =>
          let reply := if beq st (bs "e") then Some TxError
                       else option_map (fun s => TxResponse s loc resp) (dec_parse st) in
          option_map (fun r => (mk_rdv_event poll cb r, (resp, N.max bodysize alen))) reply
      | _, _, _, _, _, _ => None
      end
  | _ => None
  end.

(* the served AMP body of event i: i, then spaces, n bytes in all (n >= 1: armor is never empty) *)
Definition seq_amp_body (i : nat) (n : N) : bytes := N.of_nat i :: repeat 32 (N.to_nat n - 1)%nat.
Definition seq_amp_event (i : nat) (e : rdv_event * (bytes * N)) : rdv_event :=
  let '(ev, (_, n)) := e in
  match ev_reply ev with
  | TxError => ev
  | TxResponse st loc _ => mk_rdv_event (ev_poll ev) (ev_cb ev) (TxResponse st loc (seq_amp_body i n))
  end.
Fixpoint seq_amp_events (i : nat) (es : list (rdv_event * (bytes * N))) : list rdv_event :=
  match es with
  | [] => []
  | e :: r => seq_amp_event i e :: seq_amp_events (S i) r
  end.
Definition seq_armor_decode (es : list (rdv_event * (bytes * N))) (lr : bytes) : option bytes :=
  match lr with
  | [] => None
  | i :: _ => match nth_error es (N.to_nat i) with
              | Some (_, (resp, n)) => if N.of_nat (List.length lr) =? n then Some resp else None
              | None => None
              end
  end.

Definition seq_out_print (served : bytes) (o : option request * option bytes) : bytes :=
  req_print (fst o) ++ [SP] ++ res_body_print served (snd o) ++ bs " first=same".

Definition run_seq (args : list bytes) : option bytes :=
  match args with
  | [op; m; _; _; front; bf; cf; ou; pre; oa; sha; evs] =>
      if beq op (bs "seq") then
        match payload_parse front, broker_parse bf,
              (if beq cf (bs "n") then Some None else option_map Some (cache_parse cf)),
              opt_payload_parse ou, opt_payload_parse pre, opt_payload_parse oa, payload_parse sha,
              map_opt seq_ev_parse (split_on SEMI evs) with
        | Some front, Some b, Some cache, Some ou, Some pre, Some oa, Some sha, Some es =>
            let http := beq m (bs "h") in
            let miss := match http, cache, ou, pre with
                        | false, Some _, Some u, Some p => negb (beq (steps234 h34_runes u) p)
                        | false, Some _, Some _, None => true
                        | _, _, _, _ => false
                        end in
            if miss then Some (bs "!oracle-miss")
            else if negb (http || beq m (bs "a")) then None
            else
              let cfg := mk_rdv_config b (if http then MHttp else MAmp cache) front in
              let events := if http then map fst es else seq_amp_events 0 es in
              let outs := snd (rdv_run (fun _ => ou) (fun _ => oa) (fun _ => sha) h34_runes (seq_armor_decode es)
                                       (rdv_init cfg) events) in
              Some (join (bs " | ") (map (fun p => seq_out_print (fst (snd (fst p))) (snd p)) (combine es outs)))
        | _, _, _, _, _, _, _, _ => None
        end
      else None
  | _ => None
  end.

Definition run (args : list bytes) : bytes :=
  match run_seq args with Some r => r | None =>
  match run_broker2 args with Some r => r | None =>
  match run_path args with
  | Some r => r
  | None => match run_cache args with
            | Some r => r
            | None => match run_rdv args with
                      | Some r => r
                      | None => match run_broker args with Some r => r | None => ERR_BADCASE end
                      end
            end
  end end end.
