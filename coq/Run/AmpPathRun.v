(* AmpPathRun.v — line-protocol adapter for the C11 models (harness glue, executable).
   Area token: amppath. *)
From Coq Require Import List NArith Bool Arith String.
From Snow Require Import Lib.Wire Model.B64Url Model.AmpPath.
Import ListNotations.
Open Scope N_scope.

Definition xhex (d : bytes) : bytes := 120 :: hex_encode d.

Definition path_res_print (r : path_res) : bytes :=
  match r with
  | POk d => bs "ok " ++ xhex d
  | PErr BadBase64 => bs "err:b64"
  | PErr _ => bs "err:path"
  end.

(* projected shape of an encoded path: first byte, number of bytes up to the first
   slash, whether those are all base64url characters, and everything after that slash *)
Fixpoint until_first (sep : N) (l : bytes) : bytes :=
  match l with
  | [] => []
  | c :: r => if c =? sep then [] else c :: until_first sep r
  end.
Definition all_urlchars (l : bytes) : bool :=
  forallb (fun c => match u_dec_char c with Some _ => true | None => false end) l.
Definition shape_print (p : bytes) : bytes :=
  match p with
  | [] => bs "empty"
  | v :: rest =>
      let pad := until_first SLASH rest in
      xhex [v] ++ [SP] ++ dec_print (N.of_nat (List.length pad)) ++ [SP] ++ bool_print (all_urlchars pad)
      ++ [SP] ++ match after_first SLASH rest with Some t => xhex t | None => bs "noslash" end
  end.

Definition run_path (args : list bytes) : option bytes :=
  match args with
  | op :: a :: _ =>
      if beq op (bs "dec") then
        option_map (fun p => path_res_print (decode_path p)) (payload_parse a)
      else if beq op (bs "encshape") then
        option_map (fun d => shape_print (encode_path (repeat 0 9) d)) (payload_parse a)
      else if beq op (bs "rt") then
        option_map (fun d => path_res_print (decode_path (encode_path (repeat 0 9) d))) (payload_parse a)
      else if beq op (bs "b64") then
        option_map (fun d => xhex (u_encode d)) (payload_parse a)
      else None
  | _ => None
  end.

Definition run (args : list bytes) : bytes :=
  match run_path args with
  | Some r => r
  | None => ERR_BADCASE
  end.
