(* MetricsRun.v — line-protocol adapter for the C19 models (Round8, Metrics, Journal). Harness glue, executable.
   Case lines:  metrics bin <n> | metrics inc <n> | metrics conc <k> <n> <rounds> | metrics race <k> <rounds>
   For [conc]/[race] the model answer is computed with the sequential [incsN]; by C19_inc_conc (repaired
   machine) every interleaving of the Incs publishes exactly this value at every quiescent point. *)
From Coq Require Import List NArith Bool Arith String.
From Snow Require Import Lib.Wire Model.Round8.
Import ListNotations.
Open Scope N_scope.

Definition value_after (n : N) : N := snd (incsN n rc0).

Fixpoint conc_values (rounds : nat) (per : N) (acc : N) : list bytes :=
  match rounds with
  | O => []
  | S r => let acc' := acc + per in dec_print (value_after acc') :: conc_values r per acc'
  end.

Definition run_round8 (args : list bytes) : option bytes :=
  match args with
  | [op; a] =>
      if beq op (bs "bin") then option_map (fun n => dec_print (bin n)) (dec_parse a)
      else if beq op (bs "inc") then option_map (fun n => bs "value=" ++ dec_print (value_after n)) (dec_parse a)
      else None
  | [op; a; b] =>
      if beq op (bs "race") then
        match dec_parse a, dec_parse b with
        | Some k, Some r =>
            if (1 <=? k) && (k <=? 8) then
              let ex := if r =? 0 then 0 else value_after k - k in
              Some (bs "final=" ++ dec_print (value_after (8 * r)) ++ bs " min=" ++ dec_print ex ++ bs " max=" ++ dec_print ex)
            else None
        | _, _ => None
        end
      else None
  | [op; a; b; c] =>
      if beq op (bs "conc") then
        match dec_parse a, dec_parse b, dec_parse_nat c with
        | Some k, Some n, Some r => Some (bs "values=" ++ list_print (conc_values r (k * n) 0))
        | _, _, _ => None
        end
      else None
  | _ => None
  end.

Definition run (args : list bytes) : bytes :=
  match run_round8 args with
  | Some r => r
  | None => ERR_BADCASE
  end.
