(* MetricsRun.v — line-protocol adapter for the C19 models (Round8, Metrics, Journal). Harness glue, executable.
   Case lines:  metrics bin <n> | metrics inc <n> | metrics conc <k> <n> <rounds> | metrics race <k> <rounds>
                metrics ipc <geo 0|1> <op;op;...>     ops:  pb | pp,<addr|->,<cc>,<type>,<nat>,<relay 0|1>,<r|i|m>
                                                             | cd,<nat> | cm,<nat> | ct,<nat> | pr | ze
                metrics jwin <from> <to> <start:end:ip.ip...;...>     hand-built journal, window query
                metrics jwrite <interval> <a<t>.<ip>,f<t>,...>          writer ops at explicit clock values
                metrics jkey <k1>.<k2> <ip.ip...>                       one chunk under key k1 merged with reference sketches
                metrics jipc <interval> <p<t>.<ip>.<type>.<a|r|n>,z<t>,f<t>,...>   broker history with a journal attached
                metrics sched <k> <t.t.t...>      the repaired counter's interleaving machine [runr] on an explicit schedule
                                                  -> obs=<item,...> done=<n>   item after each step: <completed Incs>:<published value>,
                                                     or - while the mutex is held (a scrape would block)
                metrics jwf <interval> <plan> <ops>     jwrite with a failing sink: plan = one letter per Write attempt
                                                  (o ok, s Sync error, n nothing written, t torn, l all but the newline, w whole line + error)
                                                  -> lines=<start:end:card | x (unparsable)>;... all=<n|err>
                metrics jipcf <interval> <plan> <ops>   jipc with a failing sink -> lines=... wins=<...|err> uniq=...
   For [conc]/[race] the model answer is computed with the sequential [incsN]; by C19_inc_conc (repaired
   machine) every interleaving of the Incs publishes exactly this value at every quiescent point. *)
From Coq Require Import List NArith ZArith Bool Arith String.
From Snow Require Import Lib.Wire Model.Round8 Model.Metrics Model.Journal Model.BrokerJournal.
Import ListNotations.
Open Scope N_scope.

Definition value_after (n : N) : N := snd (incsN n rc0).

Fixpoint conc_values (rounds : nat) (per : N) (acc : N) : list bytes :=
  match rounds with
  | O => []
  | S r => let acc' := acc + per in dec_print (value_after acc') :: conc_values r per acc'
  end.

(* ---------- the interleaving machine of the repaired counter, on an explicit schedule ---------- *)
Definition obs_item (s : str) : bytes :=
  match observer s with
  | Some v => dec_print (N.of_nat (doner s)) ++ [COLON] ++ dec_print v
  | None => bs "-"
  end.
Definition run_sched (sched : list nat) : bytes :=
  bs "obs=" ++ list_print (map obs_item (runr_trace sched initr)) ++
  bs " done=" ++ dec_print (N.of_nat (doner (runr sched initr))).

Definition run_round8 (args : list bytes) : option bytes :=
  match args with
  | [op; a] =>
      if beq op (bs "bin") then option_map (fun n => dec_print (bin n)) (dec_parse a)
      else if beq op (bs "inc") then option_map (fun n => bs "value=" ++ dec_print (value_after n)) (dec_parse a)
      else None
  | [op; a; b] =>
      if beq op (bs "race") then
        match dec_parse a, dec_parse b with
        | Some k, Some r =>
            if (1 <=? k) && (k <=? 8) then
              let ex := if r =? 0 then 0 else value_after k - k in
              Some (bs "final=" ++ dec_print (value_after (8 * r)) ++ bs " min=" ++ dec_print ex ++ bs " max=" ++ dec_print ex)
            else None
        | _, _ => None
        end
      else if beq op (bs "sched") then
        match dec_parse_nat a, (if beq b (bs "-") then Some [] else map_opt dec_parse_nat (split_on DOT b)) with
        | Some k, Some sched => if forallb (fun i => Nat.ltb i k) sched then Some (run_sched sched) else None
        | _, _ => None
        end
      else None
  | [op; a; b; c] =>
      if beq op (bs "conc") then
        match dec_parse a, dec_parse b, dec_parse_nat c with
        | Some k, Some n, Some r => Some (bs "values=" ++ list_print (conc_values r (k * n) 0))
        | _, _, _ => None
        end
      else None
  | _ => None
  end.

(* ---------- ipc: metrics op sequences ---------- *)
Fixpoint lex_le (a b : bytes) : bool :=
  match a, b with
  | [], _ => true
  | _ :: _, [] => false
  | x :: a', y :: b' => if x <? y then true else if y <? x then false else lex_le a' b'
  end.
Fixpoint insert_sorted (x : bytes) (l : list bytes) : list bytes :=
  match l with
  | [] => [x]
  | y :: l' => if lex_le x y then x :: l else y :: insert_sorted x l'
  end.
Definition sort_bytes (l : list bytes) : list bytes := fold_right insert_sorted [] l.

Definition outcome_parse (t : bytes) : option poutcome :=
  if beq t (bs "r") then Some Rejected else if beq t (bs "i") then Some Idle else if beq t (bs "m") then Some Matched else None.

Definition op_parse (t : bytes) : option op :=
  match split_on COMMA t with
  | [k] => if beq k (bs "pb") then Some ProxyBad else if beq k (bs "pr") then Some Print
           else if beq k (bs "ze") then Some Zero else None
  | [k; n] =>
      match dec_parse n with
      | Some n => if beq k (bs "cd") then Some (ClientDenied n) else if beq k (bs "cm") then Some (ClientMatched n)
                  else if beq k (bs "ct") then Some (ClientTimeout n) else None
      | None => None
      end
  | [k; a; c; t; n; r; o] =>
      if beq k (bs "pp") then
        match dec_parse t, dec_parse n, bool_parse r, outcome_parse o with
        | Some t, Some n, Some r, Some o =>
            Some (ProxyPoll (if beq a (bs "-") then None else Some (a, c)) t n r o)
        | _, _, _, _ => None
        end
      else None
  | _ => None
  end.

Definition item (k : bytes) (v : N) : bytes := k ++ [COLON] ++ dec_print v.
Definition ev_name (e : ev) : bytes :=
  match e with EvIdle => bs "idle" | EvWith => bs "with" | EvWithout => bs "without" | EvRejected => bs "rejected"
             | EvDenied => bs "denied" | EvRDenied => bs "rdenied" | EvUDenied => bs "udenied" | EvMatched => bs "matched" end.
Definition all_ev : list ev := [EvIdle; EvWith; EvWithout; EvRejected; EvDenied; EvRDenied; EvUDenied; EvMatched].

Definition report_print (r : report) : bytes :=
  join [COMMA]
    (sort_bytes (map (fun kv => item (bs "cc." ++ fst kv) (snd kv)) (r_cc r)) ++
     map (fun t => item (bs "ips." ++ dec_print t) (r_type r t)) [0; 1; 2; 3] ++
     [item (bs "ips.total") (r_total r)] ++
     map (fun e => item (ev_name e) (r_ev r e)) all_ev ++
     [item (bs "nat.r") (r_natr r); item (bs "nat.u") (r_natu r); item (bs "nat.k") (r_natk r)]).

Definition DOTS (l : list bytes) : bytes := join [DOT] l.
Definition prom_item (kv : bytes * rc) : bytes :=
  match fst kv with
  | [f; a; b] =>
      let fam := if f =? 0 then bs "pp" else if f =? 1 then bs "cp" else if f =? 2 then bs "wr" else if f =? 3 then bs "wo" else bs "rj" in
      item (DOTS [fam; dec_print a; dec_print b]) (snd (snd kv))
  | _ => bs "?"
  end.
Definition ptotal_item (kv : bytes * N) : bytes :=
  match fst kv with
  | t :: n :: c => item (DOTS [dec_print t; dec_print n; c]) (snd kv)
  | _ => bs "?"
  end.

Definition run_ipc (g : bool) (ops : list op) : bytes :=
  let '(s, reps) := run_ops ops (minit g) [] in
  bs "reports=" ++ (match reps with [] => bs "-" | _ => join (bs "/") (map report_print reps) end) ++
  bs " prom=" ++ list_print (sort_bytes (map prom_item (prom s))) ++
  bs " ptotal=" ++ list_print (sort_bytes (map ptotal_item (ptotal s))).

Definition run_metrics (args : list bytes) : option bytes :=
  match args with
  | [op; g; ops] =>
      if beq op (bs "ipc") then
        match bool_parse g, (if beq ops (bs "-") then Some [] else map_opt op_parse (split_on SEMI ops)) with
        | Some g, Some ops => Some (run_ipc g ops)
        | _, _ => None
        end
      else None
  | _ => None
  end.

(* ---------- journal (addresses and masked values are numbers; mask = identity, injective like the HMAC) ---------- *)
Definition jmask (a : N) : N := a.
Definition zparse (t : bytes) : option Z := option_map Z.of_N (dec_parse t).
Definition zprint (z : Z) : bytes := zdec_print z.

Definition chunk_parse (t : bytes) : option (chunk N) :=
  match split_on COLON t with
  | [a; b; ips] =>
      match zparse a, zparse b, (if beq ips (bs "-") then Some [] else map_opt dec_parse (split_on DOT ips)) with
      | Some a, Some b, Some ips => Some {| c_start := a; c_end := b; c_sk := sk_of N N.eqb ips |}
      | _, _, _ => None
      end
  | _ => None
  end.

Definition jop_parse (t : bytes) : option (jop N) :=
  match t with
  | 97 :: r => match split_on DOT r with
               | [a; b] => match zparse a, dec_parse b with Some a, Some b => Some (Add a b) | _, _ => None end
               | _ => None
               end
  | 102 :: r => option_map (fun a => @Flush N a) (zparse r)
  | _ => None
  end.

Definition chunk_print (c : chunk N) : bytes :=
  zprint (c_start c) ++ [COLON] ++ zprint (c_end c) ++ [COLON] ++ dec_print (N.of_nat (List.length (c_sk c))).

Definition run_journal (args : list bytes) : option bytes :=
  match args with
  | [op; a; b; c] =>
      if beq op (bs "jwin") then
        match zparse a, zparse b, (if beq c (bs "-") then Some [] else map_opt chunk_parse (split_on SEMI c)) with
        | Some from, Some to, Some j =>
            let r := count N N.eqb from to j in
            Some (bs "sum=" ++ dec_print (fst r) ++ bs " chunks=" ++ dec_print (snd r))
        | _, _, _ => None
        end
      else None
  | [op; a; b] =>
      if beq op (bs "jwrite") then
        match zparse a, list_parse jop_parse b with
        | Some k, Some ops =>
            let w := jrun N N jmask N.eqb ops (new_writer 0%Z k) in
            let all := count N N.eqb 0%Z (w_last w) (w_out w) in
            Some (bs "chunks=" ++ (match w_out w with [] => bs "-" | _ => join [SEMI] (map chunk_print (w_out w)) end)
                  ++ bs " all=" ++ dec_print (fst all))
        | _, _ => None
        end
      else if beq op (bs "jkey") then
        (* what one chunk stores under masking key k1, merged with reference sketches built under k1, k2 and
           the empty key (key 0 here; the driver's keys are never empty).  The keyed mask is the pair
           (key, address): injective in both, as the HMAC is taken to be. *)
        match split_on DOT a, (if beq b (bs "-") then Some [] else map_opt dec_parse (split_on DOT b)) with
        | [k1; k2], Some ips =>
            match dec_parse k1, dec_parse k2 with
            | Some k1, Some k2 =>
                let k1 := N.succ k1 in let k2 := N.succ k2 in
                let keq (x y : N * N) := N.eqb (fst x) (fst y) && N.eqb (snd x) (snd y) in
                let ops := map (fun ip => Add 0%Z ip) ips ++ [Flush 1%Z] in
                let w := jrun N (N * N) (fun ip => (k1, ip)) keq ops (new_writer 0%Z 3600%Z) in
                match w_out w with
                | [c] =>
                    let ref k := sk_of (N * N) keq (map (fun ip => (k, ip)) ips) in
                    let u k := dec_print (N.of_nat (List.length (sk_merge (N * N) keq (c_sk c) (ref k)))) in
                    Some (bs "journal=sketch-only n=" ++ dec_print (N.of_nat (List.length (sk_of N N.eqb ips)))
                          ++ bs " own=" ++ u k1 ++ bs " other=" ++ u k2 ++ bs " nokey=" ++ u 0%N)
                | _ => None
                end
            | _, _ => None
            end
        | _, _ => None
        end
      else None
  | _ => None
  end.

(* ---------- journal behind a sink that fails ---------- *)
Definition wres_parse (c : N) : option wres :=
  if c =? 111 then Some WOk else if c =? 115 then Some WSyncErr else if c =? 110 then Some WNone
  else if c =? 116 then Some WTorn else if c =? 108 then Some WNoNewline else if c =? 119 then Some WWhole else None.
Definition plan_parse (t : bytes) : option (list wres) := if beq t (bs "-") then Some [] else map_opt wres_parse t.

Definition line_print {H} (l : option (chunk H)) : bytes :=
  match l with
  | Some c => zprint (c_start c) ++ [COLON] ++ zprint (c_end c) ++ [COLON] ++ dec_print (N.of_nat (List.length (c_sk c)))
  | None => bs "x"
  end.
Definition lines_print {H} (f : list (option (chunk H))) : bytes :=
  match f with [] => bs "-" | _ => join [SEMI] (map line_print f) end.

Definition run_jwf (k : Z) (plan : list wres) (ops : list (jop N)) : bytes :=
  let w := fjrun N N jmask N.eqb ops (fnew 0%Z k plan) in
  let f := file_of w in
  (* the window of the whole run: up to the clock reading of the last op *)
  let tend := fold_left (fun _ o => match o with Add t _ => t | Flush t => t end) ops 0%Z in
  bs "lines=" ++ lines_print f ++ bs " all=" ++
  match fcount N N.eqb 0%Z tend f with Some r => dec_print (fst r) | None => bs "err" end.

(* ---------- broker + journal (addresses are the decimal tokens; mask = identity on them) ---------- *)
Definition bmask (a : bytes) : bytes := a.

Definition bop_parse (t : bytes) : option bop :=
  match t with
  | 112 :: r =>                                            (* p<t>.<ip>.<type>.<o> *)
      match split_on DOT r with
      | [a; ip; ty; o] =>
          match zparse a, dec_parse ip, dec_parse ty with
          | Some a, Some _, Some ty =>
              if beq o (bs "a") then Some (At a (ProxyPoll (Some (ip, [])) ty 0 true Idle))
              else if beq o (bs "r") then Some (At a (ProxyPoll (Some (ip, [])) ty 0 true Rejected))
              else if beq o (bs "n") then Some (At a (ProxyPoll None ty 0 true Idle))
              else None
          | _, _, _ => None
          end
      | _ => None
      end
  | 122 :: r => option_map (fun a => At a Zero) (zparse r)           (* z<t> *)
  | 102 :: r => option_map FlushAt (zparse r)                        (* f<t> *)
  | _ => None
  end.

Definition bchunk_print (c : chunk bytes) : bytes :=
  zprint (c_start c) ++ [COLON] ++ zprint (c_end c) ++ [COLON] ++ dec_print (N.of_nat (List.length (c_sk c))).

Fixpoint enum_from {A} (i : N) (l : list A) : list (N * A) :=
  match l with [] => [] | x :: l' => (i, x) :: enum_from (i + 1) l' end.
Fixpoint tails {A} (l : list A) : list (list A) :=
  match l with [] => [] | x :: l' => l :: tails l' end.

(* every window [start of chunk i, end of chunk j], i <= j *)
Definition win_items (j : list (chunk bytes)) : list bytes :=
  flat_map (fun t =>
      match t with
      | (i, ci) :: _ =>
          map (fun jc => let r := count bytes beq (c_start ci) (c_end (snd jc)) j in
                         dec_print i ++ bs "-" ++ dec_print (fst jc) ++ [COLON] ++ dec_print (fst r) ++ [COLON] ++ dec_print (snd r)) t
      | [] => []
      end)
    (tails (enum_from 0 j)).

Definition run_jipc (k : Z) (ops : list bop) : bytes :=
  let s := brun bytes bmask beq ops (binit bytes false 0%Z k) in
  let j := w_out (b_w s) in
  let r := print (b_m s) in
  bs "chunks=" ++ (match j with [] => bs "-" | _ => join [SEMI] (map bchunk_print j) end) ++
  bs " wins=" ++ list_print (win_items j) ++
  bs " uniq=" ++ DOTS (map (fun t => dec_print (r_type r t)) [0; 1; 2; 3] ++ [dec_print (r_total r)]).

Definition run_jipcf (k : Z) (plan : list wres) (ops : list bop) : bytes :=
  let s := bfrun bytes bmask beq ops (bfinit bytes false 0%Z k plan) in
  let f := file_of (bf_w s) in
  let r := print (bf_m s) in
  bs "lines=" ++ lines_print f ++
  bs " wins=" ++ (if readable f then list_print (win_items (good_lines f)) else bs "err") ++
  bs " uniq=" ++ DOTS (map (fun t => dec_print (r_type r t)) [0; 1; 2; 3] ++ [dec_print (r_total r)]).

Definition run_broker_journal (args : list bytes) : option bytes :=
  match args with
  | [op; a; b] =>
      if beq op (bs "jipc") then
        match zparse a, list_parse bop_parse b with
        | Some k, Some ops => Some (run_jipc k ops)
        | _, _ => None
        end
      else None
  | [op; a; p; b] =>
      if beq op (bs "jipcf") then
        match zparse a, plan_parse p, list_parse bop_parse b with
        | Some k, Some plan, Some ops => Some (run_jipcf k plan ops)
        | _, _, _ => None
        end
      else if beq op (bs "jwf") then
        match zparse a, plan_parse p, list_parse jop_parse b with
        | Some k, Some plan, Some ops => Some (run_jwf k plan ops)
        | _, _, _ => None
        end
      else None
  | _ => None
  end.

Definition run (args : list bytes) : bytes :=
  match run_round8 args with
  | Some r => r
  | None => match run_metrics args with
            | Some r => r
            | None => match run_journal args with
                      | Some r => r
                      | None => match run_broker_journal args with Some r => r | None => ERR_BADCASE end
                      end
            end
  end.
