(* MetricsRun.v — line-protocol adapter for the C19 models (Round8, Metrics, Journal). Harness glue, executable.
   Case lines:  metrics bin <n> | metrics inc <n> | metrics conc <k> <n> <rounds> | metrics race <k> <rounds>
                metrics ipc <geo 0|1> <op;op;...>     ops:  pb | pp,<addr|->,<cc>,<type>,<nat>,<relay 0|1>,<r|i|m>
                                                             | cd,<nat> | cm,<nat> | ct,<nat> | pr | ze
                metrics jwin <from> <to> <start:end:ip.ip...;...>     hand-built journal, window query
                metrics jwrite <interval> <a<t>.<ip>,f<t>,...>          writer ops at explicit clock values
                metrics jkey <k1>.<k2> <ip.ip...>                       one chunk under key k1 merged with reference sketches
                metrics jipc <interval> <p<t>.<ip>.<type>.<a|r|n>,z<t>,f<t>,...>   broker history with a journal attached
                metrics sched <k> <t.t.t...>      the repaired counter's interleaving machine [runr] on an explicit schedule
                                                  -> obs=<item,...> done=<n>   item after each step: <completed Incs>:<published value>,
                                                     or - while the mutex is held (a scrape would block)
                metrics jwf <interval> <plan> <ops>     jwrite with a failing sink: plan = one letter per Write attempt
                                                  (o ok, s Sync error, n nothing written, t torn, l all but the newline, w whole line + error)
                                                  -> lines=<start:end:card | x (unparsable)>;... all=<n|err>
                metrics jipcf <interval> <plan> <ops>   jipc with a failing sink -> lines=... wins=<...|err> uniq=...
                metrics jconc <interval> <ops>   jipc ops plus  h<t> (the journal's next Write is held open: a slow disk)  and
                                                  r<t> (the disk answers; every poll in flight returns).  Polls issued while a Write
                                                  is held are concurrent callers.  Executed on the thread machine of
                                                  Model/JournalConc.v WITH the mutex (one thread per call, the holder stops between the
                                                  two halves of its flush, the others are given their call and block, [r] lets the
                                                  holder and then the others finish)
                                                  -> chunks=<start:end:card;...> memb=<for each accepted poll: the chunks (i+j.. or -)
                                                     that hold its address> ret=<clock when each accepted poll returned> uniq=...
                metrics jsoak <goroutines> <polls each> <interval us> <write us>   unforced concurrent polls, slow sink
                                                  -> polls=<n> lost=0 misplaced=0 twice=0 tiled=1
                metrics jbig <n>     a journal of three chunks (5, n and 7 addresses, all different) inside the window, read by the REPAIRED
                                     reader [count] (every line is read whatever its length) -> chunks=3 sum=ok
                                     (sum=ok: the estimate is within 1 % of n + 12; the estimate of a large set is the library's, not modelled)
                the ipc op  gl,<n>  = LoadGeoipDatabases: n = 0 fails (no table afterwards), n >= 1 loads a pair of files
   For [conc]/[race] the model answer is computed with the sequential [incsN]; by C19_inc_conc (repaired
   machine) every interleaving of the Incs publishes exactly this value at every quiescent point. *)
From Coq Require Import List NArith ZArith Bool Arith String.
From Snow Require Import Lib.Wire Model.Round8 Model.Metrics Model.Journal Model.BrokerJournal Model.JournalConc.
Import ListNotations.
Open Scope N_scope.

Definition value_after (n : N) : N := snd (incsN n rc0).

Fixpoint conc_values (rounds : nat) (per : N) (acc : N) : list bytes :=
  match rounds with
  | O => []
  | S r => let acc' := acc + per in dec_print (value_after acc') :: conc_values r per acc'
  end.

(* ---------- the interleaving machine of the repaired counter, on an explicit schedule ---------- *)
Definition obs_item (s : str) : bytes :=
  match observer s with
  | Some v => dec_print (N.of_nat (doner s)) ++ [COLON] ++ dec_print v
  | None => bs "-"
  end.
Definition run_sched (sched : list nat) : bytes :=
  bs "obs=" ++ list_print (map obs_item (runr_trace sched initr)) ++
  bs " done=" ++ dec_print (N.of_nat (doner (runr sched initr))).

Definition run_round8 (args : list bytes) : option bytes :=
  match args with
  | [op; a] =>
      if beq op (bs "bin") then option_map (fun n => dec_print (bin n)) (dec_parse a)
      else if beq op (bs "inc") then option_map (fun n => bs "value=" ++ dec_print (value_after n)) (dec_parse a)
      else None
  | [op; a; b] =>
      if beq op (bs "race") then
        match dec_parse a, dec_parse b with
        | Some k, Some r =>
            if (1 <=? k) && (k <=? 8) then
              let ex := if r =? 0 then 0 else value_after k - k in
              Some (bs "final=" ++ dec_print (value_after (8 * r)) ++ bs " min=" ++ dec_print ex ++ bs " max=" ++ dec_print ex)
            else None
        | _, _ => None
        end
      else if beq op (bs "sched") then
        match dec_parse_nat a, (if beq b (bs "-") then Some [] else map_opt dec_parse_nat (split_on DOT b)) with
        | Some k, Some sched => if forallb (fun i => Nat.ltb i k) sched then Some (run_sched sched) else None
        | _, _ => None
        end
      else None
  | [op; a; b; c] =>
      if beq op (bs "conc") then
        match dec_parse a, dec_parse b, dec_parse_nat c with
        | Some k, Some n, Some r => Some (bs "values=" ++ list_print (conc_values r (k * n) 0))
        | _, _, _ => None
        end
      else None
  | _ => None
  end.

(* ---------- ipc: metrics op sequences ---------- *)
Fixpoint lex_le (a b : bytes) : bool :=
  match a, b with
  | [], _ => true
  | _ :: _, [] => false
  | x :: a', y :: b' => if x <? y then true else if y <? x then false else lex_le a' b'
  end.
Fixpoint insert_sorted (x : bytes) (l : list bytes) : list bytes :=
  match l with
  | [] => [x]
  | y :: l' => if lex_le x y then x :: l else y :: insert_sorted x l'
  end.
Definition sort_bytes (l : list bytes) : list bytes := fold_right insert_sorted [] l.

Definition outcome_parse (t : bytes) : option poutcome :=
  if beq t (bs "r") then Some Rejected else if beq t (bs "i") then Some Idle else if beq t (bs "m") then Some Matched else None.

Definition op_parse (t : bytes) : option op :=
  match split_on COMMA t with
  | [k] => if beq k (bs "pb") then Some ProxyBad else if beq k (bs "pr") then Some Print
           else if beq k (bs "ze") then Some Zero else None
  | [k; n] =>
      match dec_parse n with
      | Some n => if beq k (bs "cd") then Some (ClientDenied n) else if beq k (bs "cm") then Some (ClientMatched n)
                  else if beq k (bs "ct") then Some (ClientTimeout n)
                  else if beq k (bs "gl") then Some (Reload (negb (n =? 0))) else None
      | None => None
      end
  | [k; a; c; t; n; r; o] =>
      if beq k (bs "pp") then
        match dec_parse t, dec_parse n, bool_parse r, outcome_parse o with
        | Some t, Some n, Some r, Some o =>
            Some (ProxyPoll (if beq a (bs "-") then None else Some (a, c)) t n r o)
        | _, _, _, _ => None
        end
      else None
  | _ => None
  end.

Definition item (k : bytes) (v : N) : bytes := k ++ [COLON] ++ dec_print v.
Definition ev_name (e : ev) : bytes :=
  match e with EvIdle => bs "idle" | EvWith => bs "with" | EvWithout => bs "without" | EvRejected => bs "rejected"
             | EvDenied => bs "denied" | EvRDenied => bs "rdenied" | EvUDenied => bs "udenied" | EvMatched => bs "matched" end.
Definition all_ev : list ev := [EvIdle; EvWith; EvWithout; EvRejected; EvDenied; EvRDenied; EvUDenied; EvMatched].

Definition report_print (r : report) : bytes :=
  join [COMMA]
    (sort_bytes (map (fun kv => item (bs "cc." ++ fst kv) (snd kv)) (r_cc r)) ++
     map (fun t => item (bs "ips." ++ dec_print t) (r_type r t)) [0; 1; 2; 3] ++
     [item (bs "ips.total") (r_total r)] ++
     map (fun e => item (ev_name e) (r_ev r e)) all_ev ++
     [item (bs "nat.r") (r_natr r); item (bs "nat.u") (r_natu r); item (bs "nat.k") (r_natk r)]).

Definition DOTS (l : list bytes) : bytes := join [DOT] l.
Definition prom_item (kv : bytes * rc) : bytes :=
  match fst kv with
  | [f; a; b] =>
      let fam := if f =? 0 then bs "pp" else if f =? 1 then bs "cp" else if f =? 2 then bs "wr" else if f =? 3 then bs "wo" else bs "rj" in
      item (DOTS [fam; dec_print a; dec_print b]) (snd (snd kv))
  | _ => bs "?"
  end.
Definition ptotal_item (kv : bytes * N) : bytes :=
  match fst kv with
  | t :: n :: c => item (DOTS [dec_print t; dec_print n; c]) (snd kv)
  | _ => bs "?"
  end.

Definition run_ipc (g : bool) (ops : list op) : bytes :=
  let '(s, reps) := run_ops ops (minit g) [] in
  bs "reports=" ++ (match reps with [] => bs "-" | _ => join (bs "/") (map report_print reps) end) ++
  bs " prom=" ++ list_print (sort_bytes (map prom_item (prom s))) ++
  bs " ptotal=" ++ list_print (sort_bytes (map ptotal_item (ptotal s))).

Definition run_metrics (args : list bytes) : option bytes :=
  match args with
  | [op; g; ops] =>
      if beq op (bs "ipc") then
        match bool_parse g, (if beq ops (bs "-") then Some [] else map_opt op_parse (split_on SEMI ops)) with
        | Some g, Some ops => Some (run_ipc g ops)
        | _, _ => None
        end
      else None
  | _ => None
  end.

(* ---------- journal (addresses and masked values are numbers; mask = identity, injective like the HMAC) ---------- *)
Definition jmask (a : N) : N := a.
Definition zparse (t : bytes) : option Z := option_map Z.of_N (dec_parse t).
Definition zprint (z : Z) : bytes := zdec_print z.

Definition chunk_parse (t : bytes) : option (chunk N) :=
  match split_on COLON t with
  | [a; b; ips] =>
      match zparse a, zparse b, (if beq ips (bs "-") then Some [] else map_opt dec_parse (split_on DOT ips)) with
      | Some a, Some b, Some ips => Some {| c_start := a; c_end := b; c_sk := sk_of N N.eqb ips |}
      | _, _, _ => None
      end
  | _ => None
  end.

Definition jop_parse (t : bytes) : option (jop N) :=
  match t with
  | 97 :: r => match split_on DOT r with
               | [a; b] => match zparse a, dec_parse b with Some a, Some b => Some (Add a b) | _, _ => None end
               | _ => None
               end
  | 102 :: r => option_map (fun a => @Flush N a) (zparse r)
  | _ => None
  end.

Definition chunk_print (c : chunk N) : bytes :=
  zprint (c_start c) ++ [COLON] ++ zprint (c_end c) ++ [COLON] ++ dec_print (N.of_nat (List.length (c_sk c))).

Definition run_journal (args : list bytes) : option bytes :=
  match args with
  | [op; a; b; c] =>
      if beq op (bs "jwin") then
        match zparse a, zparse b, (if beq c (bs "-") then Some [] else map_opt chunk_parse (split_on SEMI c)) with
        | Some from, Some to, Some j =>
            let r := count N N.eqb from to j in
            Some (bs "sum=" ++ dec_print (fst r) ++ bs " chunks=" ++ dec_print (snd r))
        | _, _, _ => None
        end
      else None
  | [op; a] =>
      if beq op (bs "jbig") then
        match dec_parse a with
        | Some n =>
            (* stand-in sketches: the reader includes a chunk by its span alone *)
            let j := [ {| c_start := 0%Z; c_end := 1%Z; c_sk := [1] |}; {| c_start := 1%Z; c_end := 2%Z; c_sk := [2] |};
                       {| c_start := 2%Z; c_end := 3%Z; c_sk := [3] |} ] in
            Some (bs "chunks=" ++ dec_print (snd (count N N.eqb 0%Z 3%Z j)) ++ bs " sum=ok")
        | None => None
        end
      else None
  | [op; a; b] =>
      if beq op (bs "jwrite") then
        match zparse a, list_parse jop_parse b with
        | Some k, Some ops =>
            let w := jrun N N jmask N.eqb ops (new_writer 0%Z k) in
            let all := count N N.eqb 0%Z (w_last w) (w_out w) in
            Some (bs "chunks=" ++ (match w_out w with [] => bs "-" | _ => join [SEMI] (map chunk_print (w_out w)) end)
                  ++ bs " all=" ++ dec_print (fst all))
        | _, _ => None
        end
      else if beq op (bs "jkey") then
        (* what one chunk stores under masking key k1, merged with reference sketches built under k1, k2 and
           the empty key (key 0 here; the driver's keys are never empty).  The keyed mask is the pair
           (key, address): injective in both, as the HMAC is taken to be. *)
        match split_on DOT a, (if beq b (bs "-") then Some [] else map_opt dec_parse (split_on DOT b)) with
        | [k1; k2], Some ips =>
            match dec_parse k1, dec_parse k2 with
            | Some k1, Some k2 =>
                let k1 := N.succ k1 in let k2 := N.succ k2 in
                let keq (x y : N * N) := N.eqb (fst x) (fst y) && N.eqb (snd x) (snd y) in
                let ops := map (fun ip => Add 0%Z ip) ips ++ [Flush 1%Z] in
                let w := jrun N (N * N) (fun ip => (k1, ip)) keq ops (new_writer 0%Z 3600%Z) in
                match w_out w with
                | [c] =>
                    let ref k := sk_of (N * N) keq (map (fun ip => (k, ip)) ips) in
                    let u k := dec_print (N.of_nat (List.length (sk_merge (N * N) keq (c_sk c) (ref k)))) in
                    Some (bs "journal=sketch-only n=" ++ dec_print (N.of_nat (List.length (sk_of N N.eqb ips)))
                          ++ bs " own=" ++ u k1 ++ bs " other=" ++ u k2 ++ bs " nokey=" ++ u 0%N)
                | _ => None
                end
            | _, _ => None
            end
        | _, _ => None
        end
      else None
  | _ => None
  end.

(* ---------- journal behind a sink that fails ---------- *)
Definition wres_parse (c : N) : option wres :=
  if c =? 111 then Some WOk else if c =? 115 then Some WSyncErr else if c =? 110 then Some WNone
  else if c =? 116 then Some WTorn else if c =? 108 then Some WNoNewline else if c =? 119 then Some WWhole else None.
Definition plan_parse (t : bytes) : option (list wres) := if beq t (bs "-") then Some [] else map_opt wres_parse t.

Definition line_print {H} (l : option (chunk H)) : bytes :=
  match l with
  | Some c => zprint (c_start c) ++ [COLON] ++ zprint (c_end c) ++ [COLON] ++ dec_print (N.of_nat (List.length (c_sk c)))
  | None => bs "x"
  end.
Definition lines_print {H} (f : list (option (chunk H))) : bytes :=
  match f with [] => bs "-" | _ => join [SEMI] (map line_print f) end.

Definition run_jwf (k : Z) (plan : list wres) (ops : list (jop N)) : bytes :=
  let w := fjrun N N jmask N.eqb ops (fnew 0%Z k plan) in
  let f := file_of w in
  (* the window of the whole run: up to the clock reading of the last op *)
  let tend := fold_left (fun _ o => match o with Add t _ => t | Flush t => t end) ops 0%Z in
  bs "lines=" ++ lines_print f ++ bs " all=" ++
  match fcount N N.eqb 0%Z tend f with Some r => dec_print (fst r) | None => bs "err" end.

(* ---------- broker + journal (addresses are the decimal tokens; mask = identity on them) ---------- *)
Definition bmask (a : bytes) : bytes := a.

Definition bop_parse (t : bytes) : option bop :=
  match t with
  | 112 :: r =>                                            (* p<t>.<ip>.<type>.<o> *)
      match split_on DOT r with
      | [a; ip; ty; o] =>
          match zparse a, dec_parse ip, dec_parse ty with
          | Some a, Some _, Some ty =>
              if beq o (bs "a") then Some (At a (ProxyPoll (Some (ip, [])) ty 0 true Idle))
              else if beq o (bs "r") then Some (At a (ProxyPoll (Some (ip, [])) ty 0 true Rejected))
              else if beq o (bs "n") then Some (At a (ProxyPoll None ty 0 true Idle))
              else None
          | _, _, _ => None
          end
      | _ => None
      end
  | 122 :: r => option_map (fun a => At a Zero) (zparse r)           (* z<t> *)
  | 102 :: r => option_map FlushAt (zparse r)                        (* f<t> *)
  | _ => None
  end.

Definition bchunk_print (c : chunk bytes) : bytes :=
  zprint (c_start c) ++ [COLON] ++ zprint (c_end c) ++ [COLON] ++ dec_print (N.of_nat (List.length (c_sk c))).

Fixpoint enum_from {A} (i : N) (l : list A) : list (N * A) :=
  match l with [] => [] | x :: l' => (i, x) :: enum_from (i + 1) l' end.
Fixpoint tails {A} (l : list A) : list (list A) :=
  match l with [] => [] | x :: l' => l :: tails l' end.

(* every window [start of chunk i, end of chunk j], i <= j *)
Definition win_items (j : list (chunk bytes)) : list bytes :=
  flat_map (fun t =>
      match t with
      | (i, ci) :: _ =>
          map (fun jc => let r := count bytes beq (c_start ci) (c_end (snd jc)) j in
                         dec_print i ++ bs "-" ++ dec_print (fst jc) ++ [COLON] ++ dec_print (fst r) ++ [COLON] ++ dec_print (snd r)) t
      | [] => []
      end)
    (tails (enum_from 0 j)).

Definition run_jipc (k : Z) (ops : list bop) : bytes :=
  let s := brun bytes bmask beq ops (binit bytes false 0%Z k) in
  let j := w_out (b_w s) in
  let r := print (b_m s) in
  bs "chunks=" ++ (match j with [] => bs "-" | _ => join [SEMI] (map bchunk_print j) end) ++
  bs " wins=" ++ list_print (win_items j) ++
  bs " uniq=" ++ DOTS (map (fun t => dec_print (r_type r t)) [0; 1; 2; 3] ++ [dec_print (r_total r)]).

Definition run_jipcf (k : Z) (plan : list wres) (ops : list bop) : bytes :=
  let s := bfrun bytes bmask beq ops (bfinit bytes false 0%Z k plan) in
  let f := file_of (bf_w s) in
  let r := print (bf_m s) in
  bs "lines=" ++ lines_print f ++
  bs " wins=" ++ (if readable f then list_print (win_items (good_lines f)) else bs "err") ++
  bs " uniq=" ++ DOTS (map (fun t => dec_print (r_type r t)) [0; 1; 2; 3] ++ [dec_print (r_total r)]).

Definition run_broker_journal (args : list bytes) : option bytes :=
  match args with
  | [op; a; b] =>
      if beq op (bs "jipc") then
        match zparse a, list_parse bop_parse b with
        | Some k, Some ops => Some (run_jipc k ops)
        | _, _ => None
        end
      else None
  | [op; a; p; b] =>
      if beq op (bs "jipcf") then
        match zparse a, plan_parse p, list_parse bop_parse b with
        | Some k, Some plan, Some ops => Some (run_jipcf k plan ops)
        | _, _, _ => None
        end
      else if beq op (bs "jwf") then
        match zparse a, plan_parse p, list_parse jop_parse b with
        | Some k, Some plan, Some ops => Some (run_jwf k plan ops)
        | _, _, _ => None
        end
      else None
  | _ => None
  end.

(* ---------- the journal behind the broker with concurrent polls: the thread machine with the mutex ---------- *)
Definition cs1 := cstep bytes bytes bmask beq true.
Definition jcst := cst bytes bytes.

Record jc := { jc_s : jcst; jc_armed : bool; jc_holder : option nat; jc_wait : list nat; jc_next : nat;
               jc_polls : list (nat * bytes); jc_ret : list (nat * Z) }.

Definition tick_to (t : Z) (s : jcst) : jcst := if (c_clk s <=? t)%Z then cs1 s (Tick (Z.to_N (t - c_clk s))) else s.

(* thread i steps until it is outside (or, when the gate is armed, until it sits between the two halves of a flush) *)
Fixpoint run_thread (stop_at_w2 : bool) (fuel : nat) (s : jcst) (i : nat) : jcst * bool :=
  match fuel with
  | O => (s, false)
  | S f =>
      match c_pc s i with
      | JI => (s, false)
      | JW2 _ _ => if stop_at_w2 then (s, true) else run_thread stop_at_w2 f (cs1 s (Step i)) i
      | _ => run_thread stop_at_w2 f (cs1 s (Step i)) i
      end
  end.

Definition jc_finish (st : jc) (s : jcst) (i : nat) : jc :=
  {| jc_s := s; jc_armed := jc_armed st; jc_holder := jc_holder st; jc_wait := jc_wait st; jc_next := jc_next st;
     jc_polls := jc_polls st; jc_ret := jc_ret st ++ [(i, c_clk s)] |}.

Inductive jcop := JcB (o : bop) | JcHold (t : Z) | JcRelease (t : Z).

Definition jcop_parse (t : bytes) : option jcop :=
  match t with
  | 104 :: r => option_map JcHold (zparse r)                 (* h<t> *)
  | 114 :: r => option_map JcRelease (zparse r)              (* r<t> *)
  | _ => option_map JcB (bop_parse t)
  end.

Definition jc_step (st : option jc) (o : jcop) : option jc :=
  match st with
  | None => None
  | Some st =>
      match o with
      | JcHold t =>
          Some {| jc_s := tick_to t (jc_s st); jc_armed := true; jc_holder := jc_holder st; jc_wait := jc_wait st;
                  jc_next := jc_next st; jc_polls := jc_polls st; jc_ret := jc_ret st |}
      | JcRelease t =>
          let s1 := tick_to t (jc_s st) in
          let st1 := {| jc_s := s1; jc_armed := false; jc_holder := None; jc_wait := []; jc_next := jc_next st;
                        jc_polls := jc_polls st; jc_ret := jc_ret st |} in
          match jc_holder st with
          | None => Some st1
          | Some h =>
              Some (fold_left (fun acc i => jc_finish acc (fst (run_thread false 8 (jc_s acc) i)) i) (h :: jc_wait st) st1)
          end
      | JcB (FlushAt t) =>
          if jc_armed st || (match jc_holder st with Some _ => true | None => false end) then None
          else
            let i := jc_next st in
            let s2 := cs1 (tick_to t (jc_s st)) (Call i CFlush) in
            Some {| jc_s := fst (run_thread false 8 s2 i); jc_armed := false; jc_holder := None; jc_wait := jc_wait st;
                    jc_next := S i; jc_polls := jc_polls st; jc_ret := jc_ret st |}
      | JcB (At t o) =>
          match recorded o with
          | None =>
              (* zeroMetrics, rejected polls, polls without a port: nothing reaches the journal; zeroMetrics takes the mutex,
                 the driver never issues it while a Write is held *)
              match o, jc_holder st with
              | Zero, Some _ => None
              | _, _ => Some {| jc_s := tick_to t (jc_s st); jc_armed := jc_armed st; jc_holder := jc_holder st; jc_wait := jc_wait st;
                                jc_next := jc_next st; jc_polls := jc_polls st; jc_ret := jc_ret st |}
              end
          | Some ip =>
              let i := jc_next st in
              let s2 := cs1 (tick_to t (jc_s st)) (Call i (CPoll ip)) in
              match jc_holder st with
              | Some _ =>
                  (* the mutex is held by the thread in the disk write: this one blocks *)
                  Some {| jc_s := fst (run_thread false 8 s2 i); jc_armed := jc_armed st; jc_holder := jc_holder st;
                          jc_wait := jc_wait st ++ [i]; jc_next := S i; jc_polls := jc_polls st ++ [(i, ip)]; jc_ret := jc_ret st |}
              | None =>
                  let '(s3, held) := run_thread (jc_armed st) 8 s2 i in
                  if held then
                    Some {| jc_s := s3; jc_armed := false; jc_holder := Some i; jc_wait := []; jc_next := S i;
                            jc_polls := jc_polls st ++ [(i, ip)]; jc_ret := jc_ret st |}
                  else
                    Some {| jc_s := s3; jc_armed := jc_armed st; jc_holder := None; jc_wait := []; jc_next := S i;
                            jc_polls := jc_polls st ++ [(i, ip)]; jc_ret := jc_ret st ++ [(i, c_clk s3)] |}
              end
          end
      end
  end.

Fixpoint nat_find (i : nat) (l : list (nat * Z)) : option Z :=
  match l with [] => None | (j, z) :: r => if Nat.eqb i j then Some z else nat_find i r end.

Definition memb_item (j : list (chunk bytes)) (ip : bytes) : bytes :=
  let hits := filter (fun ic => hmem bytes beq (bmask ip) (c_sk (snd ic))) (enum_from 0 j) in
  match hits with [] => bs "-" | _ => join (bs "+") (map (fun ic => dec_print (fst ic)) hits) end.

Definition jc_bops (ops : list jcop) : list bop := flat_map (fun o => match o with JcB b => [b] | _ => [] end) ops.

Definition run_jconc (k : Z) (ops : list jcop) : option bytes :=
  let st0 := {| jc_s := cinit 0%Z k; jc_armed := false; jc_holder := None; jc_wait := []; jc_next := O; jc_polls := []; jc_ret := [] |} in
  match fold_left jc_step ops (Some st0) with
  | None => None
  | Some st =>
      match jc_holder st with
      | Some _ => None
      | None =>
          let j := w_out (c_w (jc_s st)) in
          let r := print (exec (flat_map mop_of (jc_bops ops)) (minit false)) in
          Some (bs "chunks=" ++ (match j with [] => bs "-" | _ => join [SEMI] (map bchunk_print j) end) ++
                bs " memb=" ++ list_print (map (fun p => memb_item j (snd p)) (jc_polls st)) ++
                bs " ret=" ++ list_print (map (fun p => match nat_find (fst p) (jc_ret st) with Some z => zprint z | None => bs "?" end) (jc_polls st)) ++
                bs " uniq=" ++ DOTS (map (fun t => dec_print (r_type r t)) [0; 1; 2; 3] ++ [dec_print (r_total r)]))
      end
  end.

Definition run_conc_journal (args : list bytes) : option bytes :=
  match args with
  | [op; a; b] =>
      if beq op (bs "jconc") then
        match zparse a, list_parse jcop_parse b with
        | Some k, Some ops => match run_jconc k ops with Some r => Some r | None => Some ERR_BADCASE end
        | _, _ => None
        end
      else None
  | [op; g; n; _; _] =>
      (* goroutines x polls concurrent accepted polls from distinct addresses: by C19_journal_conc_records_every_poll
         every schedule records every one of them exactly once, in a chunk that spans its instant, and the chunks tile *)
      if beq op (bs "jsoak") then
        match dec_parse g, dec_parse n with
        | Some g, Some n =>
            if (1 <=? g) && (1 <=? n) then
              Some (bs "polls=" ++ dec_print (g * n) ++ bs " lost=0 misplaced=0 twice=0 tiled=1")
            else None
        | _, _ => None
        end
      else None
  | _ => None
  end.

Definition run (args : list bytes) : bytes :=
  match run_round8 args with
  | Some r => r
  | None => match run_metrics args with
            | Some r => r
            | None => match run_journal args with
                      | Some r => r
                      | None => match run_broker_journal args with
                                | Some r => r
                                | None => match run_conc_journal args with Some r => r | None => ERR_BADCASE end
                                end
                      end
            end
  end.
