(* ClientidRun.v — line-protocol adapter for the C18 models (harness glue, executable).
     clientid ring <cap> <op,op,…>        op = s<id16hex>:<addr> | g<id16hex> ; addr = n | x<hex>
        -> gets=<r,r,…> len=<len(entries)> cur=<len(current)>     r = _ (not ok) | n (nil) | x<hex>
     clientid san x<hex of client_ip> <parsed>      parsed = a (empty param) | u (ParseIP nil) | p<32hex>
        -> x<hex of clientAddr(..).String()>
     clientid bb <cap> <ev,ev,…>          ev = c<id16hex>:x<hex of client_ip>:<parsed> | a<id16hex> | t<k>
        -> <r,r,…>   RemoteAddr() of the connection accepted for each a-event (new session, first
                     stream) and t-event (a further stream of the k-th session): n | x<hex>
     clientid bb0 …                       same for the pinned (v0) acceptStreams
     clientid bbe <cap> <ev,ev,…>         as bb, plus  e<k> : the k-th carrier of the scenario (0-based, in order of
                                          its c-event) ends (Model/ServerCarrier.v run_conns_h)
     clientid burst <cap> <ev,ev,…>       ev as for bb, or a burst  b<m>+<item>+<item>…  with
                                          item = <id16hex>.<streams>.<rank>: the sessions of the items are
                                          accepted back to back (m = how the driver delivers their first
                                          packets: 1 | n | w, not used here), their goroutines start in the
                                          order of the ranks, then the remaining streams round robin
                                          (Model/ServerAccept.v burst_labels, run on the interleaving machine)
        -> <r,r,…>   as for bb; a burst yields, item by item, RemoteAddr() of each of its connections
     clientid relay <mode> <default query> <sessions>   the proxy side (see below) *)
From Coq Require Import List NArith Bool Arith String.
From Snow Require Import Lib.Wire Model.ClientIdRing Model.ClientAddr Model.ServerCarrier Model.ServerAccept Model.ProxyClientIP.
Import ListNotations.
Open Scope N_scope.

Definition be_val (b : bytes) : N := fold_left (fun acc x => 256 * acc + x) b 0.

Definition id_parse (t : bytes) : option N :=
  match hex_decode t with
  | Some b => if (List.length b =? 8)%nat then Some (be_val b) else None
  | None => None
  end.

Definition addr_parse (t : bytes) : option addr :=
  match t with
  | [110] => Some ANil
  | 120 :: h => option_map AStr (hex_decode h)
  | _ => None
  end.

Definition addr_print (a : addr) : bytes :=
  match a with ANil => bs "n" | AStr s => 120 :: hex_encode s end.

Definition PLUS : N := 43.

Definition op_parse (t : bytes) : option (op addr) :=
  match t with
  | 115 :: r =>
      match split_on COLON r with
      | [i; a] => match id_parse i, addr_parse a with
                  | Some k, Some v => Some (OSet k v)
                  | _, _ => None
                  end
      | _ => None
      end
  | 103 :: r => option_map OGet (id_parse r)
  | _ => None
  end.

Definition param_parse (t : bytes) : option param :=
  match t with
  | [97] => Some Absent
  | [117] => Some Unparsable
  | 112 :: h => match hex_decode h with
                | Some b => if (List.length b =? 16)%nat then Some (Parsed b) else None
                | None => None
                end
  | _ => None
  end.

Definition ev_parse (t : bytes) : option event :=
  match t with
  | 99 :: r =>
      match split_on COLON r with
      | [i; _; p] => match id_parse i, param_parse p with
                     | Some k, Some q => Some (Carrier k q)
                     | _, _ => None
                     end
      | _ => None
      end
  | 97 :: r => option_map Accept (id_parse r)
  | 116 :: r => option_map Stream (dec_parse_nat r)
  | _ => None
  end.

Definition hev_parse (t : bytes) : option hevent :=
  match t with
  | 101 :: r => option_map HEnd (dec_parse_nat r)        (* e<k> *)
  | _ => option_map HEv (ev_parse t)
  end.

Definition bitem_parse (t : bytes) : option bitem :=
  match split_on DOT t with
  | [i; n; r] => match id_parse i, dec_parse_nat n, dec_parse_nat r with
                 | Some k, Some n', Some r' => Some (k, n', r')
                 | _, _, _ => None
                 end
  | _ => None
  end.

Definition btok_parse (t : bytes) : option btok :=
  match t with
  | 98 :: _ :: 43 :: r => option_map BBurst (map_opt bitem_parse (split_on PLUS r))
  | _ => option_map BEv (ev_parse t)
  end.

Definition get_print (g : option addr) : bytes :=
  match g with None => bs "_" | Some a => addr_print a end.

(* ---- the proxy side: the client_ip on the relay URL (Model/ProxyClientIP.v)
     clientid relay <mode> <default query> <session,session,...>
        mode     s = the handlers run one after the other | c = all together (spawn all, parse all, set the query in
                 reverse order, dial all): the interleaving machine [prun] on [seq_labels] / [conc_labels]
        query    - | <k>=<v>+<k>=<v>...      the query the proxy's configured (default) relay URL carries by itself
        session  <relay>;<addr>   relay = d (the broker assigned no relay URL) | u<id>[+<k>=<v>...] (the URL it assigned)
                                  addr  = n (no remote address known) | a<address text>
        -> per session <relay base>|<client_ip values of the dialled URL joined by +, or ->|<number of other parameters>
           (mode c: sorted, because dials to the one default relay cannot be attributed to their sessions by the URL) *)
Definition EQS : N := 61.
Definition BAR : N := 124.

Definition pair_parse (t : bytes) : option (bytes * bytes) :=
  match split_on EQS t with
  | [k; v] => Some (k, v)
  | _ => None
  end.

Definition query_parse (t : bytes) : option (list (bytes * bytes)) :=
  match t with
  | [45] => Some []
  | _ => map_opt pair_parse (split_on PLUS t)
  end.

Definition session_parse (t : bytes) : option session :=
  match split_on SEMI t with
  | [rl; ad] =>
      let addr := match ad with
                  | [110] => Some None                       (* n *)
                  | 97 :: r => Some (Some r)                  (* a<text> *)
                  | _ => None
                  end in
      let relay := match split_on PLUS rl with
                   | [[100]] => Some None                    (* d *)
                   | (117 :: id) :: ps =>                    (* u<id>+k=v... *)
                       option_map (fun q => Some (mk_rurl (117 :: id) q)) (map_opt pair_parse ps)
                   | _ => None
                   end in
      match relay, addr with
      | Some r, Some a => Some (mk_session r a)
      | _, _ => None
      end
  | _ => None
  end.

Definition dial_print (u : rurl) : bytes :=
  let ips := q_values CLIENT_IP (ru_query u) in
  ru_base u ++ [BAR] ++ (match ips with [] => bs "-" | _ => join [PLUS] ips end) ++ [BAR]
    ++ dec_print (N.of_nat (List.length (filter (fun e => negb (beq (fst e) CLIENT_IP)) (ru_query u)))).

Fixpoint dial_of (i : nat) (ds : list (nat * rurl)) : option rurl :=
  match ds with
  | [] => None
  | (j, u) :: t => if Nat.eqb i j then Some u else dial_of i t
  end.

Fixpoint bytes_leb (a b : bytes) : bool :=
  match a, b with
  | [], _ => true
  | _ :: _, [] => false
  | x :: a', y :: b' => if x <? y then true else if y <? x then false else bytes_leb a' b'
  end.
Fixpoint ins_bytes (x : bytes) (l : list bytes) : list bytes :=
  match l with
  | [] => [x]
  | y :: t => if bytes_leb x y then x :: l else y :: ins_bytes x t
  end.
Definition sort_bytes (l : list bytes) : list bytes := fold_right ins_bytes [] l.

Definition relay_run (conc : bool) (defq : list (bytes * bytes)) (ss : list session) : bytes :=
  let dflt := mk_rurl [100] defq in
  let st := prun dflt (if conc then conc_labels ss else seq_labels 0 ss) in
  let outs := map (fun i => match dial_of i (p_dials st) with Some u => dial_print u | None => bs "nodial" end)
                  (seq 0 (List.length ss)) in
  list_print (if conc then sort_bytes outs else outs).

Definition run (args : list bytes) : bytes :=
  match args with
  | [o; m; dq; ss] =>
      if beq o (bs "relay") then
        match query_parse dq, list_parse session_parse ss with
        | Some q, Some l =>
            if beq m (bs "s") then relay_run false q l
            else if beq m (bs "c") then relay_run true q l
            else ERR_BADCASE
        | _, _ => ERR_BADCASE
        end
      else ERR_BADCASE
  | [o; a; b] =>
      if beq o (bs "ring") then
        match dec_parse_nat a, list_parse op_parse b with
        | Some cap, Some ops =>
            let r0 := new addr ANil cap in
            let r := exec addr ANil r0 ops in
            bs "gets=" ++ list_print (map get_print (outputs addr ANil r0 ops))
              ++ bs " len=" ++ dec_print (N.of_nat (List.length (entries r)))
              ++ bs " cur=" ++ dec_print (N.of_nat (List.length (current r)))
        | _, _ => ERR_BADCASE
        end
      else if beq o (bs "san") then
        match param_parse b with
        | Some p => 120 :: hex_encode (sanitise p)
        | None => ERR_BADCASE
        end
      else if beq o (bs "bb") then
        match dec_parse_nat a, list_parse ev_parse b with
        | Some cap, Some evs => list_print (map (fun c => addr_print (snd c)) (run_conns cap evs))
        | _, _ => ERR_BADCASE
        end
      else if beq o (bs "bbe") then
        match dec_parse_nat a, list_parse hev_parse b with
        | Some cap, Some hevs => list_print (map (fun c => addr_print (snd c)) (run_conns_h cap hevs))
        | _, _ => ERR_BADCASE
        end
      else if beq o (bs "bb0") then
        match dec_parse_nat a, list_parse ev_parse b with
        | Some cap, Some evs => list_print (map (fun c => addr_print (snd c)) (run_conns_v0 cap evs))
        | _, _ => ERR_BADCASE
        end
      else if beq o (bs "burst") then
        match dec_parse_nat a, list_parse btok_parse b with
        | Some cap, Some toks => list_print (map addr_print (brun InGoroutine (ainit cap) 0 toks))
        | _, _ => ERR_BADCASE
        end
      else ERR_BADCASE
  | _ => ERR_BADCASE
  end.
