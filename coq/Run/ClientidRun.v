(* ClientidRun.v — line-protocol adapter for the C18 models (harness glue, executable).
     clientid ring <cap> <op,op,…>        op = s<id16hex>:<addr> | g<id16hex> ; addr = n | x<hex>
        -> gets=<r,r,…> len=<len(entries)> cur=<len(current)>     r = _ (not ok) | n (nil) | x<hex>
     clientid san x<hex of client_ip> <parsed>      parsed = a (empty param) | u (ParseIP nil) | p<32hex>
        -> x<hex of clientAddr(..).String()>
     clientid bb <cap> <ev,ev,…>          ev = c<id16hex>:x<hex of client_ip>:<parsed> | a<id16hex> | t<k>
        -> <r,r,…>   RemoteAddr() of the connection accepted for each a-event (new session, first
                     stream) and t-event (a further stream of the k-th session): n | x<hex>
     clientid bb0 …                       same for the pinned (v0) acceptStreams
     clientid burst <cap> <ev,ev,…>       ev as for bb, or a burst  b<m>+<item>+<item>…  with
                                          item = <id16hex>.<streams>.<rank>: the sessions of the items are
                                          accepted back to back (m = how the driver delivers their first
                                          packets: 1 | n | w, not used here), their goroutines start in the
                                          order of the ranks, then the remaining streams round robin
                                          (Model/ServerAccept.v burst_labels, run on the interleaving machine)
        -> <r,r,…>   as for bb; a burst yields, item by item, RemoteAddr() of each of its connections *)
From Coq Require Import List NArith Bool Arith String.
From Snow Require Import Lib.Wire Model.ClientIdRing Model.ClientAddr Model.ServerCarrier Model.ServerAccept.
Import ListNotations.
Open Scope N_scope.

Definition be_val (b : bytes) : N := fold_left (fun acc x => 256 * acc + x) b 0.

Definition id_parse (t : bytes) : option N :=
  match hex_decode t with
  | Some b => if (List.length b =? 8)%nat then Some (be_val b) else None
  | None => None
  end.

Definition addr_parse (t : bytes) : option addr :=
  match t with
  | [110] => Some ANil
  | 120 :: h => option_map AStr (hex_decode h)
  | _ => None
  end.

Definition addr_print (a : addr) : bytes :=
  match a with ANil => bs "n" | AStr s => 120 :: hex_encode s end.

Definition op_parse (t : bytes) : option (op addr) :=
  match t with
  | 115 :: r =>
      match split_on COLON r with
      | [i; a] => match id_parse i, addr_parse a with
                  | Some k, Some v => Some (OSet k v)
                  | _, _ => None
                  end
      | _ => None
      end
  | 103 :: r => option_map OGet (id_parse r)
  | _ => None
  end.

Definition param_parse (t : bytes) : option param :=
  match t with
  | [97] => Some Absent
  | [117] => Some Unparsable
  | 112 :: h => match hex_decode h with
                | Some b => if (List.length b =? 16)%nat then Some (Parsed b) else None
                | None => None
                end
  | _ => None
  end.

Definition ev_parse (t : bytes) : option event :=
  match t with
  | 99 :: r =>
      match split_on COLON r with
      | [i; _; p] => match id_parse i, param_parse p with
                     | Some k, Some q => Some (Carrier k q)
                     | _, _ => None
                     end
      | _ => None
      end
  | 97 :: r => option_map Accept (id_parse r)
  | 116 :: r => option_map Stream (dec_parse_nat r)
  | _ => None
  end.

Definition PLUS : N := 43.

Definition bitem_parse (t : bytes) : option bitem :=
  match split_on DOT t with
  | [i; n; r] => match id_parse i, dec_parse_nat n, dec_parse_nat r with
                 | Some k, Some n', Some r' => Some (k, n', r')
                 | _, _, _ => None
                 end
  | _ => None
  end.

Definition btok_parse (t : bytes) : option btok :=
  match t with
  | 98 :: _ :: 43 :: r => option_map BBurst (map_opt bitem_parse (split_on PLUS r))
  | _ => option_map BEv (ev_parse t)
  end.

Definition get_print (g : option addr) : bytes :=
  match g with None => bs "_" | Some a => addr_print a end.

Definition run (args : list bytes) : bytes :=
  match args with
  | [o; a; b] =>
      if beq o (bs "ring") then
        match dec_parse_nat a, list_parse op_parse b with
        | Some cap, Some ops =>
            let r0 := new addr ANil cap in
            let r := exec addr ANil r0 ops in
            bs "gets=" ++ list_print (map get_print (outputs addr ANil r0 ops))
              ++ bs " len=" ++ dec_print (N.of_nat (List.length (entries r)))
              ++ bs " cur=" ++ dec_print (N.of_nat (List.length (current r)))
        | _, _ => ERR_BADCASE
        end
      else if beq o (bs "san") then
        match param_parse b with
        | Some p => 120 :: hex_encode (sanitise p)
        | None => ERR_BADCASE
        end
      else if beq o (bs "bb") then
        match dec_parse_nat a, list_parse ev_parse b with
        | Some cap, Some evs => list_print (map (fun c => addr_print (snd c)) (run_conns cap evs))
        | _, _ => ERR_BADCASE
        end
      else if beq o (bs "bb0") then
        match dec_parse_nat a, list_parse ev_parse b with
        | Some cap, Some evs => list_print (map (fun c => addr_print (snd c)) (run_conns_v0 cap evs))
        | _, _ => ERR_BADCASE
        end
      else if beq o (bs "burst") then
        match dec_parse_nat a, list_parse btok_parse b with
        | Some cap, Some toks => list_print (map addr_print (brun InGoroutine (ainit cap) 0 toks))
        | _, _ => ERR_BADCASE
        end
      else ERR_BADCASE
  | _ => ERR_BADCASE
  end.
