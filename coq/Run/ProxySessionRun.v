(* ProxySessionRun.v — line-protocol adapter for the proxy session machine (harness glue).

   case line:  proxysession seq  <capacity> <op>,<op>,...     repaired machine V1 (the check)
               proxysession seq0 <capacity> <op>,<op>,...     pinned-code machine V0 (diagnostics)
   ops (one scripted outcome each; the Go driver forces the same path through runSession):
     e j s x k u   a session whose poll ends with nil (HTTP 500 / malformed body / empty status /
                   error status / match without offer / undecodable offer)
     n             one "no match" answer, then HTTP 500
     w<r>/<r>/...  the SAME session polls again and again: one "no match" answer per round <r>, and
                   after each of them the sessions named by the round ('.'-separated ids, "_" = none)
                   end before the next poll (5 s later); the poll after the last round gets HTTP 500
     b r R         relay URL unparsable / host rejected / scheme rejected (non-TLS relay not allowed)
     p             peer connection cannot be made from the offer
     a g m         /answer fails (HTTP 500 / "client gone" / malformed) before the client connects
     t             the client never opens the data channel (20 s timer): it never gets the answer
     T             the same with a client that CONNECTS (ICE/DTLS/SCTP up, pre-negotiated channel: no
                   DATA_CHANNEL_OPEN is ever sent); the machine does not distinguish the two
     o             data channel opens, handler serves (stays open);  + the same without a poll
                   (driver shortcut: a bare tokens.get())
     q             data channel opens, relay unreachable: the handler ends at once
     O<x> Q<x>     the sessions o and q with a client whose offer looks different: x = p as produced (a
                   public-looking host candidate), l only local addresses (RFC1918/CGNAT/link-local/loopback/
                   ULA candidates, unspecified c= line: webRTCConn.RemoteAddr() is nil), n no candidates,
                   6 IPv6 candidates only, m mDNS candidates only; x = u: an unordered, unreliable data
                   channel with an empty label.  The machine does not distinguish them from o and q.
     Y<x>          the data channel opens and the handler dials a relay that misbehaves: x = r resets the TCP
                   connection, e closes it without answering, h answers the upgrade with an HTTP error (the dial
                   fails: LH _ HDialFail, as for q); x = z accepts the connection and never answers (nothing comes
                   from the relay: the handler's 45 s handshake timer, LH _ HDialTimer, ends the dial); x = s completes
                   the WebSocket handshake and then stalls (the session stays open like o, until c<i>/d<i>)
     A             /answer fails AFTER the client opened the data channel and the handler started
     c<i> d<i> -<i>  the handler of session i ends (client closes / relay closes / bare ret)
   result: per op  c<count>h<len(ch)>p<polls of the op, '.'-separated | ->, each poll being
                   <Clients figure>@<slots in use when the figure was computed>
           markers (never passed off as a result):
             !skipped:<result>  while running the op the adapter stepped over a handler's channel receive (LH _ HRecv)
                                that was NOT enabled (tokens.ret() blocks on a drained channel): what follows is the
                                state with that handler still parked.  Expected of the pinned machine (seq0 / start0:
                                that is the double release); the repaired machine V1 never takes this path
             !stuck             any other step of the op was not enabled  *)
From Coq Require Import List NArith ZArith Bool Arith String.
From Snow Require Import Lib.Wire Model.Tokens Model.ProxySession Model.TokensConc.
Import ListNotations.
Local Open Scope nat_scope.

Definition pre : list label := [LGet; LGetSend].
Definition nego : list label := pre ++ [LPollOffer; LRelayOk; LPcOk].
(* the data channel is open, runSession has returned, the handler is dialling the relay *)
Definition dialling (sid : nat) : list label := nego ++ [LAnswerOk; LDcOpen; LH sid HClaim; LSelectOpen].
Definition opened (sid : nat) : list label := dialling sid ++ [LH sid HDialOk].
Definition dial_failed (sid : nat) : list label := dialling sid ++ [LH sid HDialFail; LH sid HRecv].
Definition dial_timed_out (sid : nat) : list label := dialling sid ++ [LH sid HDialTimer; LH sid HRecv].

(* the handlers of the sessions ids end, one after the other *)
Definition ends (ids : list nat) : list label := List.concat (map (fun i => [LH i HEnd; LH i HRecv]) ids).

(* one round of a w op: "_" or '.'-separated session ids *)
Definition round_parse (r : bytes) : option (list nat) :=
  if beq r (bs "_") then Some [] else map_opt dec_parse_nat (split_on DOT r).

(* labels of an op, and whether its polls are shown *)
Definition op_labels (v : version) (sid : nat) (t : bytes) : option (list label * bool) :=
  match t with
  | [c] =>
      if existsb (N.eqb c) [101; 106; 115; 120; 107; 117]%N then Some (pre ++ [LPollNil; LMainRecv], true)
      else if (c =? 110)%N then Some (pre ++ [LPollNoMatch; LPollNil; LMainRecv], true)
      else if existsb (N.eqb c) [98; 114; 82]%N then Some (pre ++ [LPollOffer; LRelayBad; LMainRecv], true)
      else if (c =? 112)%N then Some (pre ++ [LPollOffer; LRelayOk; LPcFail; LMainRecv], true)
      else if existsb (N.eqb c) [97; 103; 109]%N
           then Some (nego ++ [LAnswerFail; LGiveUp; LClose; LMainRecv], true)
      else if existsb (N.eqb c) [116; 84]%N then Some (nego ++ [LAnswerOk; LSelectTimeout; LGiveUp; LClose; LMainRecv], true)
      else if (c =? 111)%N then Some (opened sid, true)
      else if (c =? 43)%N then Some (opened sid, false)
      else if (c =? 113)%N then Some (dial_failed sid, true)
      else if (c =? 65)%N
           then Some (nego ++ [LDcOpen; LH sid HClaim; LH sid HDialOk; LAnswerFail; LGiveUp] ++
                      match v with V0 => [LClose; LMainRecv] | V1 => [] end, true)
      else None
  | c :: d =>
      if ((c =? 79) || (c =? 81))%N then
        (* O<x> / Q<x>: the sessions o / q with a client whose offer (x = p l n 6 m) or data channel (u) has
           another shape; the machine does not distinguish them *)
        match d with
        | [x] => if existsb (N.eqb x) [112; 108; 110; 54; 109; 117]%N
                 then Some (if (c =? 79)%N then opened sid else dial_failed sid, true)
                 else None
        | _ => None
        end
      else if (c =? 89)%N then
        (* Y<x>: what the relay does with the dial *)
        match d with
        | [x] => if existsb (N.eqb x) [114; 101; 104]%N then Some (dial_failed sid, true)
                 else if (x =? 122)%N then Some (dial_timed_out sid, true)
                 else if (x =? 115)%N then Some (opened sid, true)
                 else None
        | _ => None
        end
      else if existsb (N.eqb c) [99; 100; 45]%N
      then match dec_parse_nat d with Some i => Some (ends [i], true) | None => None end
      else if (c =? 119)%N
      then match map_opt round_parse (split_on 47%N d) with
           | Some rounds =>
               Some (pre ++ List.concat (map (fun ids => LPollNoMatch :: ends ids) rounds) ++ [LPollNil; LMainRecv], true)
           | None => None
           end
      else None
  | [] => None
  end.

(* what the adapter must not hide *)
Record flags := mkF { skipped : bool }.
Definition no_flags : flags := mkF false.
Definition MARK_SKIPPED : bytes := bs "!skipped:".
Definition mark (f : flags) (r : bytes) : bytes := if skipped f then MARK_SKIPPED ++ r else r.

(* a handler's blocked channel receive (possible in V0 only) leaves the state unchanged: the step is passed
   over and the fact is RECORDED in the flags *)
Fixpoint run_skip (v : version) (st : state) (f : flags) (ls : list label) : option (state * flags) :=
  match ls with
  | [] => Some (st, f)
  | l :: ls' =>
      match step v st l with
      | Some st' => run_skip v st' f ls'
      | None => match l with LH _ HRecv => run_skip v st (mkF true) ls' | _ => None end
      end
  end.

Definition op_print (st : state) (npolls : nat) (show : bool) : bytes :=
  let ps := skipn npolls (polls st) in
  bs "c" ++ zdec_print (count (tok st)) ++ bs "h" ++ dec_print (N.of_nat (chlen (tok st))) ++ bs "p" ++
  match ps, show with
  | _ :: _, true => join [46%N] (map (fun p => zdec_print (fst p) ++ bs "@" ++ dec_print (N.of_nat (snd p))) ps)
  | _, _ => bs "-"
  end.

(* ---- op S<n>x<rounds> (conc cases): overlapping callers of the tokens value, Model/TokensConc.v.
   n goroutines take a slot together; then <rounds> rounds of n holders and n starters (12 short sessions each,
   c16StressPairs of the driver) released by one barrier; then the n slots are given back together.  Every phase is run
   to quiescence under a pseudo-random schedule (an LCG picks among the goroutines whose next step is enabled); by
   C16_quiescent_count_schedule_independent / C16_stress_round_count the outcome does not depend on that choice, so any
   schedule predicts what the implementation must show at its own quiescent points.  The model runs at most
   STRESS_ROUNDS_MAX rounds (every round has the same programs).  The op then behaves as the op e (one failing poll) and
   the answer ends with ~r0d0 like the driver's (first bad round, drift); a tokens value that differs after the stress
   is printed as ~model-drift, a phase that does not reach quiescence as !stuck. *)
Definition STRESS_PAIRS : nat := 12.
Definition STRESS_ROUNDS_MAX : nat := 6.
Definition lcg (g : N) : N := ((g * 1103515245 + 12345) mod 2147483648)%N.
Definition ready_idx (t : tokens) (ll : list (list micro)) : list nat :=
  map fst (filter (fun p => match snd p with m :: _ => micro_ready t m | [] => false end)
                  (combine (seq 0 (List.length ll)) ll)).
Fixpoint crun_rand (fuel : nat) (s : cstate) (g : N) : option cstate :=
  match fuel with
  | O => Some s
  | S f =>
      match ready_idx (ctok s) (todo s) with
      | [] => Some s
      | en =>
          let g' := lcg g in
          match nth_error en (N.to_nat ((g' / 65536) mod N.of_nat (List.length en))%N) with
          | Some i => match cstep s i with Some s' => crun_rand f s' g' | None => None end
          | None => None
          end
      end
  end.
Definition phase (t : tokens) (ps : list (list tokop)) (g : N) : option tokens :=
  let s := cinit t ps in
  match crun_rand (List.length (List.concat (todo s))) s g with
  | Some s' => if quiescent s' then Some (ctok s') else None
  | None => None
  end.
Fixpoint phases (t : tokens) (ps : list (list tokop)) (r : nat) (g : N) : option tokens :=
  match r with
  | O => Some t
  | S r' => match phase t ps g with Some t' => phases t' ps r' (lcg (g + 7)) | None => None end
  end.
Definition stress (t : tokens) (n rounds : nat) : option tokens :=
  let g := N.of_nat (n * 31 + rounds) in
  match phase t (repeat [OGet] n) g with
  | Some t1 =>
      match phases t1 (round_progs n STRESS_PAIRS) (Nat.min rounds STRESS_ROUNDS_MAX) (lcg g) with
      | Some t2 => phase t2 (repeat [ORet] n) (lcg (g + 1))
      | None => None
      end
  | None => None
  end.
Definition tok_eqb (a b : tokens) : bool :=
  (cap a =? cap b) && (clients a =? clients b)%Z && (chlen a =? chlen b).
(* the op really run and what is appended to its answer; None: a phase got stuck / bad op *)
Definition op_resolve (st : state) (o : bytes) : option (bytes * bytes) :=
  match o with
  | 83%N :: d =>
      match map_opt dec_parse_nat (split_on 120%N d) with
      | Some [n; rounds] =>
          match stress (tok st) n rounds with
          | Some t' => Some ([101%N], if tok_eqb t' (tok st) then bs "~r0d0" else bs "~model-drift")
          | None => None
          end
      | _ => None
      end
  | _ => Some (o, [])
  end.

Fixpoint run_ops (v : version) (st : state) (ops : list bytes) : option (list bytes) :=
  match ops with
  | [] => Some []
  | o0 :: ops' =>
      match op_resolve st o0 with
      | None => Some [bs "!stuck"]
      | Some (o, suffix) =>
      match op_labels v (gets st) o with
      | Some (ls, show) =>
          match run_skip v st no_flags ls with
          | Some (st', f) =>
              match run_ops v st' ops' with
              | Some r => Some ((mark f (op_print st' (List.length (polls st)) show) ++ suffix) :: r)
              | None => None
              end
          | None => Some [bs "!stuck"]
          end
      | None => None
      end
      end
  end.

(* ---- start mode: SnowflakeProxy.Start drives the loop; a session op is observed when its first
   poll reaches the broker (count, len(ch), Clients of that poll); B = no poll arrives because the
   loop is parked in tokens.get(); c<i>/d<i> print "-"; E = one more poll arrives, then Stop. *)
Definition drop_get (st : state) (ls : list label) : list label :=
  match mn st, ls with
  | MGetSend, LGet :: ls' => ls'
  | _, _ => ls
  end.

Definition poll_print (st : state) : bytes :=
  bs "c" ++ zdec_print (count (tok st)) ++ bs "h" ++ dec_print (N.of_nat (chlen (tok st))) ++ bs "p" ++
  zdec_print (reported (tok st)).

Fixpoint start_ops (v : version) (st : state) (ops : list bytes) : option (list bytes) :=
  match ops with
  | [] => Some []
  | o :: ops' =>
      if beq o (bs "B") then
        match run_skip v st no_flags (drop_get st [LGet]) with
        | Some (st1, f) =>
            match start_ops v st1 ops' with
            | Some r => Some (mark f (match step v st1 LGetSend with None => bs "B1" | Some _ => bs "B0" end) :: r)
            | None => None
            end
        | None => Some [bs "!stuck"]
        end
      else
      let sess_ls := if beq o (bs "E") then Some (pre ++ [LPollShutdown; LMainRecv], true)
                     else op_labels v (gets st) o in
      match sess_ls with
      | Some (LGet :: LGetSend :: rest, _) =>
          match run_skip v st no_flags (drop_get st pre) with
          | Some (st1, f1) =>
              match run_skip v st1 f1 rest with
              | Some (st2, f2) =>
                  match start_ops v st2 ops' with
                  | Some r => Some (mark f2 (poll_print st1) :: r)
                  | None => None
                  end
              | None => Some [bs "!stuck"]
              end
          | None => Some [bs "!stuck"]
          end
      | Some (ls, _) =>
          match run_skip v st no_flags ls with
          | Some (st', f) =>
              match start_ops v st' ops' with
              | Some r => Some (mark f (bs "-") :: r)
              | None => None
              end
          | None => Some [bs "!stuck"]
          end
      | None => None
      end
  end.

Definition run (args : list bytes) : bytes :=
  match args with
  | [op; c; o] =>
      let v := if beq op (bs "seq") || beq op (bs "conc") then Some V1 else if beq op (bs "seq0") then Some V0 else None in
      match v, dec_parse_nat c, list_parse (fun x => Some x) o with
      | Some v, Some cp, Some ops =>
          match run_ops v (init cp) ops with
          | Some r => list_print r
          | None => ERR_BADCASE
          end
      | None, Some cp, Some ops =>
          let v := if beq op (bs "start") then Some V1 else if beq op (bs "start0") then Some V0 else None in
          match v with
          | Some v => match start_ops v (init cp) ops with
                      | Some r => list_print r
                      | None => ERR_BADCASE
                      end
          | None => ERR_BADCASE
          end
      | _, _, _ => ERR_BADCASE
      end
  | _ => ERR_BADCASE
  end.
